// REST configuration of C12: the application talks to the real edv.RESTProvider (real EncryptedFormatter, real JWE,
// real HMAC) and the observer is the VAULT SERVER: an in-process EDV server (httptest) that keeps documents by id with
// their indexed attributes, answers queries / batches the way the TrustBloc server does, and records method, URL,
// headers and body of every request.  Each request is scanned (direct oracle) and abstracted to a term of coq/C12/Rest.v.
package main

import (
	"encoding/base64"
	"encoding/json"
	"fmt"
	"io"
	"net/http"
	"net/http/httptest"
	"sort"
	"strings"
	"sync"

	"github.com/btcsuite/btcutil/base58"

	"github.com/hyperledger/aries-framework-go/component/storage/edv"

	"verifharness/hx"
)

const (
	vaultID  = "vault-7Hq2"
	basePath = "/encrypted-data-vaults"
)

type vreq struct {
	method, uri, path string
	hdr               http.Header
	body              []byte
}

type vaultDoc struct {
	id    string
	raw   []byte
	attrs [][2]string
}

// vaultSrv is the vault server's state for one case.  docs: most recently written first (as the model's store).
type vaultSrv struct {
	mu   sync.Mutex
	docs []vaultDoc
	reqs []vreq
	bad  []string
}

var (
	restOnce sync.Once
	restHTTP *httptest.Server
	curVault *vaultSrv
	curMu    sync.Mutex
)

func restURL() string {
	restOnce.Do(func() {
		restHTTP = httptest.NewServer(http.HandlerFunc(func(w http.ResponseWriter, r *http.Request) {
			curMu.Lock()
			v := curVault
			curMu.Unlock()

			if v == nil {
				w.WriteHeader(http.StatusServiceUnavailable)
				return
			}

			v.serve(w, r)
		}))
	})

	return restHTTP.URL + basePath
}

func (v *vaultSrv) reset() {
	v.mu.Lock()
	v.reqs = nil
	v.mu.Unlock()
}

func (v *vaultSrv) snapshot() []vreq {
	v.mu.Lock()
	defer v.mu.Unlock()

	return append([]vreq{}, v.reqs...)
}

func (v *vaultSrv) find(id string) int {
	for i := range v.docs {
		if v.docs[i].id == id {
			return i
		}
	}

	return -1
}

func (v *vaultSrv) remove(id string) bool {
	i := v.find(id)
	if i < 0 {
		return false
	}

	v.docs = append(v.docs[:i:i], v.docs[i+1:]...)

	return true
}

func parseVaultDoc(raw []byte) (vaultDoc, error) {
	var d struct {
		ID      string `json:"id"`
		Indexed []struct {
			Attributes []struct {
				Name  string `json:"name"`
				Value string `json:"value"`
			} `json:"attributes"`
		} `json:"indexed"`
	}

	if err := json.Unmarshal(raw, &d); err != nil {
		return vaultDoc{}, err
	}

	r := vaultDoc{id: d.ID, raw: append([]byte{}, raw...)}

	for _, c := range d.Indexed {
		for _, a := range c.Attributes {
			r.attrs = append(r.attrs, [2]string{a.Name, a.Value})
		}
	}

	return r, nil
}

func (v *vaultSrv) put(id string, d vaultDoc) {
	v.remove(id)
	d.id = id
	v.docs = append([]vaultDoc{d}, v.docs...)
}

type vquery struct {
	Index               string              `json:"index"`
	Equals              []map[string]string `json:"equals"`
	Has                 string              `json:"has"`
	ReturnFullDocuments bool                `json:"returnFullDocuments"`
}

type vop struct {
	Operation string          `json:"operation"`
	ID        string          `json:"id,omitempty"`
	Document  json.RawMessage `json:"document,omitempty"`
}

func (d *vaultDoc) attr(n, val string) bool {
	for _, a := range d.attrs {
		if a[0] == n && (val == "" || a[1] == val) {
			return true
		}
	}

	return false
}

func (d *vaultDoc) matches(q *vquery) bool {
	if q.Has != "" {
		return d.attr(q.Has, "")
	}

	for _, sub := range q.Equals {
		all := true

		for n, val := range sub {
			if !d.attr(n, val) {
				all = false
				break
			}
		}

		if all {
			return true
		}
	}

	return false
}

func (v *vaultSrv) serve(w http.ResponseWriter, r *http.Request) {
	body, _ := io.ReadAll(r.Body)

	v.mu.Lock()
	defer v.mu.Unlock()

	v.reqs = append(v.reqs, vreq{method: r.Method, uri: r.RequestURI, path: r.URL.Path, hdr: r.Header.Clone(), body: body})

	seg := strings.Split(strings.TrimPrefix(r.URL.Path, basePath+"/"), "/")
	if len(seg) < 2 || seg[0] != vaultID {
		v.bad = append(v.bad, "request outside the configured vault: "+r.URL.Path)
		w.WriteHeader(http.StatusNotFound)

		return
	}

	switch {
	case seg[1] == "documents" && len(seg) == 2 && r.Method == http.MethodPost:
		d, err := parseVaultDoc(body)
		if err != nil || d.id == "" {
			w.WriteHeader(http.StatusBadRequest)
			return
		}

		if v.find(d.id) >= 0 {
			w.WriteHeader(http.StatusConflict)
			return
		}

		v.put(d.id, d)
		w.Header().Set("Location", restHTTP.URL+basePath+"/"+vaultID+"/documents/"+d.id)
		w.WriteHeader(http.StatusCreated)
	case seg[1] == "documents" && len(seg) == 3 && r.Method == http.MethodPost:
		d, err := parseVaultDoc(body)
		if err != nil {
			w.WriteHeader(http.StatusBadRequest)
			return
		}

		if d.id != seg[2] {
			v.bad = append(v.bad, "update of document "+seg[2]+" with a document whose id is "+d.id)
			w.WriteHeader(http.StatusBadRequest)

			return
		}

		v.put(seg[2], d)
		w.WriteHeader(http.StatusOK)
	case seg[1] == "documents" && len(seg) == 3 && r.Method == http.MethodGet:
		i := v.find(seg[2])
		if i < 0 {
			w.WriteHeader(http.StatusNotFound)
			_, _ = w.Write([]byte("document not found"))

			return
		}

		_, _ = w.Write(v.docs[i].raw)
	case seg[1] == "documents" && len(seg) == 3 && r.Method == http.MethodDelete:
		if !v.remove(seg[2]) {
			w.WriteHeader(http.StatusNotFound)
			return
		}

		w.WriteHeader(http.StatusOK)
	case seg[1] == "query" && len(seg) == 2 && r.Method == http.MethodPost:
		var q vquery
		if err := json.Unmarshal(body, &q); err != nil {
			w.WriteHeader(http.StatusBadRequest)
			return
		}

		var res []json.RawMessage

		for i := range v.docs {
			if !v.docs[i].matches(&q) {
				continue
			}

			if q.ReturnFullDocuments {
				res = append(res, v.docs[i].raw)
			} else {
				u, _ := json.Marshal(restHTTP.URL + basePath + "/" + vaultID + "/documents/" + v.docs[i].id)
				res = append(res, u)
			}
		}

		if res == nil {
			res = []json.RawMessage{}
		}

		b, _ := json.Marshal(res)
		_, _ = w.Write(b)
	case seg[1] == "batch" && len(seg) == 2 && r.Method == http.MethodPost:
		var ops []vop
		if err := json.Unmarshal(body, &ops); err != nil {
			w.WriteHeader(http.StatusBadRequest)
			return
		}

		for _, o := range ops {
			switch o.Operation {
			case "upsert":
				d, err := parseVaultDoc(o.Document)
				if err != nil || d.id == "" {
					v.bad = append(v.bad, "batch upsert without a readable document")
					continue
				}

				if o.ID != "" && o.ID != d.id {
					v.bad = append(v.bad, "batch upsert names id "+o.ID+" for a document whose id is "+d.id)
				}

				v.put(d.id, d)
			case "delete":
				v.remove(o.ID)
			default:
				v.bad = append(v.bad, "batch operation "+o.Operation)
			}
		}

		_, _ = w.Write([]byte("[]"))
	default:
		v.bad = append(v.bad, "unknown route "+r.Method+" "+r.URL.Path)
		w.WriteHeader(http.StatusNotFound)
	}
}

// ---------- the REST world ----------

// name fragments of the ':' atom of class tag name: "bad:name-Jj7q" as a criterion is name "bad", value "name-Jj7q"
func fragments(s string) (string, string) {
	p := strings.SplitN(s, ":", 2)
	return p[0], p[1]
}

func (w *world) initRest(c Case) error {
	w.rest = true
	w.srv = &vaultSrv{}

	curMu.Lock()
	curVault = w.srv
	curMu.Unlock()

	f, ok := w.cf.formatter(c.Det).(*edv.EncryptedFormatter)
	if !ok {
		return fmt.Errorf("formatter is not an *edv.EncryptedFormatter")
	}

	var opts []edv.RESTProviderOption
	if c.Full {
		opts = append(opts, edv.WithFullDocumentsReturnedFromQueries())
	}

	if c.BExt {
		opts = append(opts, edv.WithBatchEndpointExtension())
	}

	w.top = edv.NewRESTProvider(restURL(), vaultID, f, opts...)

	// what the formatter makes of the application strings when the prefix is the store name
	mac := func(s string) []byte {
		m, err := w.cf.crypto.ComputeMAC([]byte(s), w.cf.kh)
		if err != nil {
			panic(err)
		}

		return m
	}
	put := func(k, t string) {
		if _, ok := w.tab[k]; !ok {
			w.tab[k] = t
		}
	}

	for _, a := range atoms {
		switch a.cls {
		case "key":
			put(base58.Encode(mac(storeName + string(a.raw))[:16]), "(dP "+a.term+")")
		case "tagname":
			put(base64.URLEncoding.EncodeToString(mac(storeName+string(a.raw))), "(mP "+a.term+")")
		}
	}

	f1, f2 := fragments(nameS[9])
	put(base64.URLEncoding.EncodeToString(mac(storeName+f1)), "(mP (aN 91))")
	put(base64.URLEncoding.EncodeToString(mac(f2)), "(mM (aN 92))")
	put(base64.URLEncoding.EncodeToString(mac(storeName)), "(mP (L 0))")

	s, err := w.top.OpenStore(storeName)
	if err != nil {
		return err
	}

	w.store = s

	if n := len(w.srv.snapshot()); n != 0 {
		return fmt.Errorf("opening the REST store sent %d requests", n)
	}

	return nil
}

// rcall scans one request the vault server received and prints it as a term of type rcall.
func (w *world) rcall(q vreq) (string, string) {
	seg := strings.Split(strings.TrimPrefix(q.path, basePath+"/"), "/")
	kind := "REST-unknown"

	switch {
	case len(seg) == 2 && seg[1] == "documents":
		kind = "REST-create"
	case len(seg) == 3 && seg[1] == "documents" && q.method == http.MethodPost:
		kind = "REST-update"
	case len(seg) == 3 && seg[1] == "documents" && q.method == http.MethodGet:
		kind = "REST-read"
	case len(seg) == 3 && seg[1] == "documents" && q.method == http.MethodDelete:
		kind = "REST-delete"
	case len(seg) == 2 && seg[1] == "query":
		kind = "REST-query"
	case len(seg) == 2 && seg[1] == "batch":
		kind = "REST-batch"
	}

	w.scan(kind, "url", []byte(q.uri))
	w.scan(kind, "body", q.body)

	hk := make([]string, 0, len(q.hdr))
	for k := range q.hdr {
		hk = append(hk, k)
	}

	sort.Strings(hk)

	for _, k := range hk {
		w.scan(kind, "header", []byte(k+": "+strings.Join(q.hdr[k], ", ")))
	}

	for _, b := range w.srv.bad {
		w.fail("rest:protocol:"+kind, b)
	}

	switch kind {
	case "REST-create":
		return "HCreate " + w.doc(kind, q.body), kind
	case "REST-update":
		return "HUpdate " + w.str(seg[2]) + " " + w.doc(kind, q.body), kind
	case "REST-read":
		return "HRead " + w.str(seg[2]), kind
	case "REST-delete":
		return "HDelete " + w.str(seg[2]), kind
	case "REST-query":
		var vq vquery

		var top map[string]json.RawMessage

		if err := json.Unmarshal(q.body, &vq); err != nil || json.Unmarshal(q.body, &top) != nil {
			w.fail("rest:query-body", fmt.Sprintf("query body unreadable: %.120q", q.body))
			return "HQuery [] None false", kind
		}

		for k := range top {
			if k != "index" && k != "equals" && k != "has" && k != "returnFullDocuments" {
				w.fail("rest:query-extra-field", "query carries a member "+k)
			}
		}

		if vq.Index != "" {
			w.fail("rest:query-index", "query names an index: "+vq.Index)
		}

		subs := make([]string, len(vq.Equals))

		for i, sub := range vq.Equals {
			names := make([]string, 0, len(sub))
			for n := range sub {
				names = append(names, n)
			}

			sort.Strings(names)

			ps := make([]string, len(names))
			for j, n := range names {
				ps[j] = "(" + w.str(n) + ", " + w.str(sub[n]) + ")"
			}

			subs[i] = "[" + strings.Join(ps, "; ") + "]"
		}

		has := "None"
		if vq.Has != "" {
			has = "(Some " + w.str(vq.Has) + ")"
		}

		return "HQuery [" + strings.Join(subs, "; ") + "] " + has + " " + hx.CoqBool(vq.ReturnFullDocuments), kind
	case "REST-batch":
		var ops []map[string]json.RawMessage
		if err := json.Unmarshal(q.body, &ops); err != nil {
			w.fail("rest:batch-body", fmt.Sprintf("batch body unreadable: %.120q", q.body))
			return "HBatch []", kind
		}

		ts := make([]string, len(ops))

		for i, o := range ops {
			var operation, id string

			for k, raw := range o {
				switch k {
				case "operation":
					_ = json.Unmarshal(raw, &operation)
				case "id":
					_ = json.Unmarshal(raw, &id)
				case "document":
				default:
					w.fail("rest:batch-extra-field", "vault operation carries a member "+k)
				}
			}

			idt, dt := "None", "None"
			if _, ok := o["id"]; ok {
				idt = "(Some " + w.str(id) + ")"
			}

			if raw, ok := o["document"]; ok {
				dt = "(Some " + w.doc(kind, raw) + ")"
			}

			ts[i] = "(" + hx.CoqBool(operation == "upsert") + ", " + idt + ", " + dt + ")"
		}

		return "HBatch [" + strings.Join(ts, "; ") + "]", kind
	}

	w.fail("rest:unknown-request", q.method+" "+q.path)

	return "HRead (L 999)", kind
}

func coqROp(o Op) string {
	qs := func(qq [][]Tag) string {
		s := make([]string, len(qq))
		for i, q := range qq {
			s[i] = coqTags(q)
		}

		return "[" + strings.Join(s, "; ") + "]"
	}
	opts := func(oo []QOpt) string {
		s := make([]string, len(oo))
		for i, q := range oo {
			s[i] = fmt.Sprintf("%s %d", map[string]string{"s": "QSort", "p": "QPage", "i": "QInit"}[q.K], q.N)
		}

		return "[" + strings.Join(s, "; ") + "]"
	}

	switch o.Kind {
	case "queryopts":
		return "RQuery " + qs([][]Tag{o.Q}) + " " + opts(o.O)
	case "rquery":
		return "RQuery " + qs(o.Qs) + " " + opts(o.O)
	case "setcfg":
		return "RSetCfg " + coqNs(o.N)
	case "getcfg":
		return "RGetCfg"
	}

	return "R" + strings.TrimPrefix(coqOp(o), "X") // XS (...) -> RS (...)
}

// ---------- generators ----------

var restCrits = []Tag{{1, 0}, {1, 1}, {1, 2}, {2, 0}, {2, 2}, {2, 1}, {3, 3}, {3, 0}, {9, 0}, {9, 1}, {1, 9}}

func randRQuery(r *hx.Rng) Op {
	n := 1 + r.Intn(3)
	o := Op{Kind: "rquery", Qs: make([][]Tag, n)}

	for i := range o.Qs {
		m := 1 + r.Intn(3)
		if r.Intn(3) > 0 {
			m = 1
		}

		for j := 0; j < m; j++ {
			c := restCrits[r.Intn(8)]
			if r.Intn(12) == 0 {
				c = restCrits[r.Intn(len(restCrits))]
			}

			o.Qs[i] = append(o.Qs[i], c)
		}
	}

	if r.Intn(4) == 0 {
		for i, k := 0, r.Intn(3); i <= k; i++ {
			switch r.Intn(4) {
			case 0:
				o.O = append(o.O, QOpt{"s", 1 + r.Intn(3)})
			case 1:
				o.O = append(o.O, QOpt{"i", r.Intn(2)})
			default:
				o.O = append(o.O, QOpt{"p", 1 + r.Intn(20)})
			}
		}
	}

	return o
}

func restConf(c *Case, n int) {
	c.Rest = true
	c.Fmt = n % 2 // the two local key/algorithm configurations (restprovider.go never uses BatchCrypto)
	c.Det, c.Full, c.BExt = n&1 == 1, n&2 == 2, n&4 == 4
}

func restMaps(r *hx.Rng) (km, nm, vm [4]int) {
	// tag names without "&&" / "||" (the REST provider splits expressions at them): classes 1, 2, 4, 5
	return pick3(r, []int{1, 2, 3, 4, 5, 6, 7, 8}), pick3(r, []int{1, 2, 4, 5}), pick3(r, []int{1, 2, 3, 4, 5})
}

func remapQs(ops []Op, nm, vm [4]int) {
	for i := range ops {
		for a := range ops[i].Qs {
			q := append([]Tag{}, ops[i].Qs[a]...)
			for b := range q {
				if q[b][0] >= 1 && q[b][0] <= 3 {
					q[b][0] = nm[q[b][0]]
				}

				if q[b][1] >= 1 && q[b][1] <= 3 {
					q[b][1] = vm[q[b][1]]
				}
			}

			ops[i].Qs[a] = q
		}
	}
}

func randomRestCase(r *hx.Rng, n int) Case {
	var c Case

	restConf(&c, r.Intn(8))
	c.Fmt = r.Intn(2)

	ops := make([]Op, 0, n+12)

	if r.Intn(4) == 0 {
		ops = append(ops, Op{Kind: "setcfg", N: cfgSets[1+r.Intn(4)]})
	}

	for len(ops) < n {
		o := randOp(r)

		switch {
		case o.Kind == "query" && r.Intn(2) == 0:
			o = randRQuery(r)
		case o.Kind == "batch" && r.Intn(6) == 0 && len(o.B) > 0:
			// a Batch does not validate tags: ':' inside a tag name / value goes through the formatter
			o.B[r.Intn(len(o.B))].T = [][]Tag{{{9, 1}}, {{1, 9}}, {{1, 1}, {9, 0}}}[r.Intn(3)]
		}

		ops = append(ops, o)
	}

	km, nm, vm := restMaps(r)
	ops = append(ops, probe(r)...)
	ops = append(ops, randRQuery(r))
	c.Ops = remap(ops, km, nm, vm)
	remapQs(c.Ops, nm, vm)

	return c
}

// every sequence of length <= depth over a reduced alphabet, the eight option combinations taken in turn
func restExhaustive(depth int, tr *hx.Trace, rng *hx.Rng) {
	alpha := []Op{
		{Kind: "setcfg", N: []int{1, 2}},
		{Kind: "put", K: 1, V: 1, T: []Tag{{1, 1}}},
		{Kind: "put", K: 1, V: 1, T: []Tag{{1, 1}}},
		{Kind: "put", K: 1, V: 2},
		{Kind: "put", K: 2, V: 1, T: []Tag{{1, 2}, {2, 0}}},
		{Kind: "tags", K: 1},
		{Kind: "delete", K: 1},
		{Kind: "query", Q: []Tag{{1, 0}}},
		{Kind: "query", Q: []Tag{{1, 1}, {2, 0}}},
		{Kind: "rquery", Qs: [][]Tag{{{1, 1}}, {{2, 0}, {1, 2}}}},
		{Kind: "rquery", Qs: [][]Tag{{{9, 0}}}, O: []QOpt{{"p", 5}}},
		{Kind: "queryopts", Q: []Tag{{1, 0}}, O: []QOpt{{"s", 1}, {"p", 5}}},
		{Kind: "batch", B: []BOp{{K: 1, V: 3, T: []Tag{{2, 2}}}, {K: 1, T: []Tag{{1, 1}}}, {K: 1, V: 1}}},
		{Kind: "batch", B: []BOp{{K: 2}, {K: 1, V: 1, T: []Tag{{1, 2}}}, {K: 3, V: 2, T: []Tag{{9, 1}}}}},
		{Kind: "reopen"},
		{Kind: "getcfg"},
	}
	tail := []Op{{Kind: "get", K: 1}, {Kind: "bulk", Ks: []int{1, 2}}, {Kind: "query", Q: []Tag{{1, 0}}},
		{Kind: "rquery", Qs: [][]Tag{{{2, 2}}, {{1, 1}}}}, {Kind: "tags", K: 1}}

	var rec func(prefix []Op)

	n := 0

	rec = func(prefix []Op) {
		if len(prefix) > 0 {
			km, nm, vm := restMaps(rng.Fork(uint64(8_000_000 + n)))

			var c Case

			restConf(&c, n)
			c.Fmt = (n / 8) % 2
			c.Ops = remap(append(append([]Op{}, prefix...), tail...), km, nm, vm)
			remapQs(c.Ops, nm, vm)
			runCase("exhaustive-rest", c, tr, true)

			n++
		}

		if len(prefix) == depth {
			return
		}

		for _, o := range alpha {
			rec(append(append([]Op{}, prefix...), o))
		}
	}

	rec(nil)
}
