// c12: drives the real formattedstore.FormattedProvider with the real edv.EncryptedFormatter (own KMS, real JWE
// encrypter/decrypter, real HMAC; deterministic and random document ids) over a RECORDING provider and inspects every
// argument of every call the underlying provider receives:
//
//	(a) direct oracle: no application key / value / tag name / tag value in raw, base64 (std/url, padded/raw), base58
//	    or hex form, also after decoding every base64/base58/hex looking run of the argument (two levels deep);
//	    every stored document opens with the configured key and with no other; two stored documents never share a
//	    ciphertext; a stored document has only the fields of an EDV encrypted document;
//	(b) each argument is abstracted to a symbolic term (MAC outputs recognised by recomputing them with the MAC key,
//	    documents parsed and decrypted) and the per-operation call log is compared in Coq with the model of coq/C12.
//
// The operation alphabet and the generators follow harness/c11 (a main package cannot be imported, so the small
// printers are repeated here); store configuration operations are added.
package main

import (
	"bytes"
	"encoding/base64"
	"encoding/hex"
	"encoding/json"
	"errors"
	"fmt"
	"os"
	"path/filepath"
	"sort"
	"strings"

	"github.com/btcsuite/btcutil/base58"
	"github.com/google/tink/go/keyset"
	"github.com/google/tink/go/mac"

	"github.com/hyperledger/aries-framework-go/component/storage/edv"
	"github.com/hyperledger/aries-framework-go/component/storageutil/formattedstore"
	"github.com/hyperledger/aries-framework-go/component/storageutil/mem"
	cryptoapi "github.com/hyperledger/aries-framework-go/pkg/crypto"
	"github.com/hyperledger/aries-framework-go/pkg/crypto/tinkcrypto"
	"github.com/hyperledger/aries-framework-go/pkg/doc/jose"
	"github.com/hyperledger/aries-framework-go/pkg/kms"
	"github.com/hyperledger/aries-framework-go/pkg/kms/localkms"
	mockkms "github.com/hyperledger/aries-framework-go/pkg/mock/kms"
	"github.com/hyperledger/aries-framework-go/pkg/secretlock/noop"
	spi "github.com/hyperledger/aries-framework-go/spi/storage"

	"verifharness/hx"
)

// ---------- application strings (every one long and odd enough that a hit in a scan is meaningful) ----------

var keyS = map[int]string{
	1: "acct:alice/7Qx1zzKey",
	2: "k2-вход-9fKpW3uY",
	3: strings.Repeat("Lk3q", 120) + "-endOfKey3", // very long
	// keys that resemble the formatter's OWN output formats and other structured identifiers
	4: base58.Encode([]byte{0x51, 0x0c, 0xe2, 0x9a, 0x77, 0x03, 0xfe, 0x10, 0xb4, 0x4d, 0x8e, 0x21, 0x6f, 0xa5, 0x39, 0xc8}), // base58 of 128 bits: an EDV document id
	5: base64.URLEncoding.EncodeToString([]byte("\x9b\x01key5-thirty-two-bytes-of-keyzz\xfe\xa0")),                           // base64url of 32 bytes: a formatted tag
	6: "3f2b8c1e-9a4d-4e7b-b1c2-5d6e7f8091a2",                                                                                // UUID
	7: "did:key:z6MkpTHR8VNsBxYAAWHut2Geadd9jSwuBV8xRoAnwWsdvktH#z6MkpTHR8VNsBxYAAWHut2Geadd9jSwuBV8xRoAnwWsdvktH",
	8: "q|r&&s:t=u?v&w|x\"y\\z<Key8>",
}

var valS = map[int][]byte{
	1: []byte(`{"secret":"v1-Zx81Lq0a","n":1}`),
	2: {0x00, 0xff, 0x13, 0x37, 0xc0, 0xde, 0xfa, 0xce, 0x8b, 0xad, 0xf0, 0x0d, 0x01, 0x02, 0xfe, 0x7f},
	3: []byte("v3-" + strings.Repeat("payload-Gh5", 20)),
}

var nameS = map[int]string{1: "nm1-Qz8Lw2ee", 2: "тег2-Hy6TqName", 3: "n3&&x-Pp0aaNm", 9: "bad:name-Jj7q",
	4: base64.URLEncoding.EncodeToString([]byte("\x03name4-looks-like-a-mac-output\xff")), // like a formatted tag name
	5: base58.Encode([]byte("name5-16-bytes!!")),                                          // like a document id
}

var tvalS = map[int]string{1: "tv1-Mm4Rr7xVal", 2: "tv2 sp/+=é-Value", 3: "tv3-" + strings.Repeat("w", 40), 9: "bad:val-Kk2pp",
	4: base64.URLEncoding.EncodeToString([]byte("tval4-32-bytes-like-a-mac-value!")),
	5: "9c1d7e42-0b3a-4f6e-8d2c-a1b2c3d4e5f6",
}

const (
	storeName  = "s"
	cfgSuffix  = "_formattedstore_storeconfig"
	cfgKey     = "formattedstore_storeconfig"
	keyTagName = "Key"
)

func keyStr(k int) string { return keyS[k] }

func valBytes(v int) []byte {
	if v == 0 {
		return nil
	}

	return valS[v]
}

func rev(m map[int]string, s string) (int, bool) {
	for n, x := range m {
		if x == s {
			return n, true
		}
	}

	return 77, false
}

func keyNum(s string) int {
	if s == "" {
		return 0
	}

	n, _ := rev(keyS, s)

	return n
}

func valNum(b []byte) int {
	if b == nil {
		return 0
	}

	for n, x := range valS {
		if bytes.Equal(x, b) {
			return n
		}
	}

	return 77
}

func nameNum(s string) int {
	if s == "" {
		return 0
	}

	n, _ := rev(nameS, s)

	return n
}

func tvalNum(s string) int {
	if s == "" {
		return 0
	}

	n, _ := rev(tvalS, s)

	return n
}

// ---------- cases ----------

// Tag is (name, value) in the number alphabet.
type Tag [2]int

// BOp is one operation of a Batch (V = 0: delete).
type BOp struct {
	K int   `json:"k"`
	V int   `json:"v"`
	T []Tag `json:"t,omitempty"`
}

// Op is one step of a case.
type Op struct {
	Kind string `json:"op"` // put get tags bulk query queryopts delete batch flush reopen setcfg getcfg
	K    int    `json:"k,omitempty"`
	V    int    `json:"v,omitempty"`
	T    []Tag  `json:"t,omitempty"`
	Ks   []int  `json:"ks,omitempty"`
	Q    []Tag  `json:"q,omitempty"`
	B    []BOp  `json:"b,omitempty"`
	N    []int  `json:"n,omitempty"` // setcfg: tag names
	Qs   [][]Tag `json:"qs,omitempty"` // rquery (REST): disjunction of conjunctions c&&c||c&&c
	O    []QOpt `json:"o,omitempty"` // queryopts: the query options, in order
}

// QOpt is one query option: "s" sort by tag name N (0 = empty name; order alternates), "p" page size N, "i" initial page N.
type QOpt struct {
	K string `json:"k"`
	N int    `json:"n"`
}

// Res is one entry of a query result.
type Res struct {
	K int   `json:"k"`
	V int   `json:"v"`
	T []Tag `json:"t,omitempty"`
}

// Out is the projected result of one call.
type Out struct {
	Kind string `json:"kind"` // done err notfound val tags bulk query panic
	V    int    `json:"v,omitempty"`
	T    []Tag  `json:"t,omitempty"`
	Vs   []int  `json:"vs,omitempty"`
	R    []Res  `json:"r,omitempty"`
	Err  string `json:"err,omitempty"`
}

// Case is replayable.
type Case struct {
	Det bool `json:"det"`
	Fmt int  `json:"fmt"` // which key/algorithm configuration (index into confs)
	Ops []Op `json:"ops"`
	// REST: the application talks to edv.RESTProvider (no formattedstore), the observer is the vault server
	Rest bool `json:"rest,omitempty"`
	Full bool `json:"full,omitempty"` // WithFullDocumentsReturnedFromQueries
	BExt bool `json:"bext,omitempty"` // WithBatchEndpointExtension
}

// ---------- the real formatter, per configuration ----------

type conf struct {
	name     string
	batch    bool // WithEDVBatchCrypto: MACs and encryption computed by a (here: local) "remote KMS" in one call
	kh       *keyset.Handle
	crypto   cryptoapi.Crypto
	enc      jose.Encrypter
	dec      jose.Decrypter
	wrongDec jose.Decrypter
	recog    map[string]string // concrete string -> Coq term (static part)
}

var confs []*conf

func newKMS() (kms.KeyManager, error) {
	p, err := mockkms.NewProviderForKMS(mem.NewProvider(), &noop.NoLock{})
	if err != nil {
		return nil, err
	}

	return localkms.New("local-lock://c12", p)
}

func newConf(name string, kt kms.KeyType, alg jose.EncAlg) (*conf, error) {
	c, err := tinkcrypto.New()
	if err != nil {
		return nil, err
	}

	mk := func() (jose.Encrypter, jose.Decrypter, error) {
		k, err := newKMS()
		if err != nil {
			return nil, nil, err
		}

		_, pkb, err := k.CreateAndExportPubKeyBytes(kt)
		if err != nil {
			return nil, nil, err
		}

		pk := new(cryptoapi.PublicKey)
		if err = json.Unmarshal(pkb, pk); err != nil {
			return nil, nil, err
		}

		enc, err := jose.NewJWEEncrypt(alg, "application/JSON", "", "", nil, []*cryptoapi.PublicKey{pk}, c)
		if err != nil {
			return nil, nil, err
		}

		return enc, jose.NewJWEDecrypt(nil, c, k), nil
	}

	enc, dec, err := mk()
	if err != nil {
		return nil, err
	}

	_, wrong, err := mk() // another party: own KMS, own key of the same type
	if err != nil {
		return nil, err
	}

	kh, err := keyset.NewHandle(mac.HMACSHA256Tag256KeyTemplate())
	if err != nil {
		return nil, err
	}

	cf := &conf{name: name, kh: kh, crypto: c, enc: enc, dec: dec, wrongDec: wrong, recog: map[string]string{}}
	cf.static()

	return cf, nil
}

// perf stands for the remote KMS of edv.BatchCrypto: it answers with the MAC of the document id, the formatted tags
// and the encrypted document, all computed by the real local formatter and the real MAC (what
// the package's own test double does by hand).
type perf struct{ cf *conf }

func (p *perf) BatchCrypto(req *edv.BatchCryptoPayload, macKH, _ interface{}) (*edv.BatchCryptoPayload, error) {
	payload, err := base64.RawURLEncoding.DecodeString(req.DocPayload)
	if err != nil {
		return nil, err
	}

	var value []byte
	if len(payload) > 0 {
		value = payload
	}

	inner := edv.NewEncryptedFormatter(p.cf.enc, p.cf.dec, edv.NewMACCrypto(macKH, p.cf.crypto), edv.WithDeterministicDocumentIDs())

	_, doc, ftags, err := inner.Format(req.Prefix+req.DocID, value, req.DocTags...)
	if err != nil {
		return nil, err
	}

	id := ""

	if req.DocID != "" {
		m, err := p.cf.crypto.ComputeMAC([]byte(req.Prefix+req.DocID), macKH)
		if err != nil {
			return nil, err
		}

		id = base64.RawURLEncoding.EncodeToString(m)
	}

	return &edv.BatchCryptoPayload{Prefix: req.Prefix, DocID: id, DocTags: ftags,
		DocPayload: base64.RawURLEncoding.EncodeToString(doc)}, nil
}

func (cf *conf) formatter(det bool) formattedstore.Formatter {
	var opts []edv.EncryptedFormatterOption
	if det {
		opts = append(opts, edv.WithDeterministicDocumentIDs())
	}

	if cf.batch {
		opts = append(opts, edv.WithEDVBatchCrypto(edv.NewBatchCrypto(cf.kh, nil, &perf{cf})))
	}

	return edv.NewEncryptedFormatter(cf.enc, cf.dec, edv.NewMACCrypto(cf.kh, cf.crypto), opts...)
}

// addMacs registers what the formatter would make of the string s (whose term is t).
func (cf *conf) addMacs(tab map[string]string, s, t string) {
	m, err := cf.crypto.ComputeMAC([]byte(s), cf.kh)
	if err != nil {
		panic(err)
	}

	put := func(k, v string) {
		if _, ok := tab[k]; !ok {
			tab[k] = v
		}
	}

	put(base64.URLEncoding.EncodeToString(m), "(mM "+t+")")
	put(base58.Encode(m[:16]), "(dI "+t+")")
	// other renderings of the same MAC are not what the formatter produces: left unknown on purpose
}

// addPlain registers a readable application string in the encodings the property names.
func addPlain(tab map[string]string, s, t string) {
	put := func(k, v string) {
		if _, ok := tab[k]; !ok && k != "" {
			tab[k] = v
		}
	}

	b := []byte(s)
	put(s, t)
	put(base58.Encode(b), "(Enc 0 "+t+")")
	put(base64.URLEncoding.EncodeToString(b), "(Enc 1 "+t+")")
	put(base64.StdEncoding.EncodeToString(b), "(Enc 2 "+t+")")
	put(hex.EncodeToString(b), "(Enc 3 "+t+")")
	put(base64.RawURLEncoding.EncodeToString(b), "(Enc 4 "+t+")")
	put(base64.RawStdEncoding.EncodeToString(b), "(Enc 5 "+t+")")
}

type atom struct {
	cls  string
	n    int
	raw  []byte
	term string
	encs map[string]string // the atom in the encodings the property names (computed once)
}

var atoms []atom

func init() {
	for _, n := range []int{1, 2, 3, 4, 5, 6, 7, 8} {
		atoms = append(atoms, atom{"key", n, []byte(keyS[n]), fmt.Sprintf("(aK %d)", n), nil})
	}

	for _, n := range []int{1, 2, 3} {
		atoms = append(atoms, atom{"value", n, valS[n], fmt.Sprintf("(aV %d)", n), nil})
	}

	for _, n := range []int{1, 2, 3, 4, 5, 9} {
		atoms = append(atoms, atom{"tagname", n, []byte(nameS[n]), fmt.Sprintf("(aN %d)", n), nil})
		atoms = append(atoms, atom{"tagvalue", n, []byte(tvalS[n]), fmt.Sprintf("(aT %d)", n), nil})
	}
}

func init() {
	for i := range atoms {
		raw := atoms[i].raw
		atoms[i].encs = map[string]string{
			"base64std": base64.StdEncoding.EncodeToString(raw), "base64url": base64.URLEncoding.EncodeToString(raw),
			"base64rawstd": base64.RawStdEncoding.EncodeToString(raw), "base64rawurl": base64.RawURLEncoding.EncodeToString(raw),
			"base58": base58.Encode(raw), "hex": hex.EncodeToString(raw),
		}
	}
}

func (cf *conf) static() {
	for _, a := range atoms {
		if a.cls != "value" {
			cf.addMacs(cf.recog, string(a.raw), a.term)
		}

		if a.cls == "key" {
			cf.addMacs(cf.recog, base64.StdEncoding.EncodeToString(a.raw), "(b6 "+a.term+")")
		}
	}

	cf.addMacs(cf.recog, keyTagName, "(L 1)")
	cf.addMacs(cf.recog, cfgKey, "(L 3)")
	cf.addMacs(cf.recog, base64.StdEncoding.EncodeToString([]byte(cfgKey)), "(b6 (L 3))")

	for _, a := range atoms {
		addPlain(cf.recog, string(a.raw), a.term)
	}
}

// ---------- expression strings (the application side builds them; the parts are registered as MAC candidates) ----------

func exprStr(q []Tag) string {
	p := make([]string, len(q))
	for i, c := range q {
		p[i] = nameS[c[0]]
		if c[1] != 0 {
			p[i] += ":" + tvalS[c[1]]
		}
	}

	return strings.Join(p, "&&")
}

// exprParts mirrors the tokens of the Coq model: the expression split at ':' with, per part, its term.
func exprParts(q []Tag) (strs, terms []string) {
	type tok struct{ s, t string }

	var toks []tok

	for i, c := range q {
		if i > 0 {
			toks = append(toks, tok{"&&", "(L 2)"})
		}

		toks = append(toks, tok{nameS[c[0]], fmt.Sprintf("(aN %d)", c[0])})
		if c[1] != 0 {
			toks = append(toks, tok{":", ""}, tok{tvalS[c[1]], fmt.Sprintf("(aT %d)", c[1])})
		}
	}

	var cs, ct []string

	flush := func() {
		strs = append(strs, strings.Join(cs, ""))
		if len(ct) == 1 {
			terms = append(terms, ct[0])
		} else {
			terms = append(terms, "(jN ["+strings.Join(ct, "; ")+"])")
		}

		cs, ct = nil, nil
	}

	for _, t := range toks {
		if t.s == ":" {
			flush()
			continue
		}

		cs, ct = append(cs, t.s), append(ct, t.t)
	}

	flush()

	return strs, terms
}

// ---------- one running case ----------

type world struct {
	cf     *conf
	det    bool
	rec    *hx.RecProvider
	spy    *optSpy
	top    spi.Provider
	rest   bool
	srv    *vaultSrv
	store  spi.Store
	tab    map[string]string // per case: cf.recog + conjunction parts + random ids + unknowns
	nRnd   int
	nQuery int
	nUnk   int
	ceks   map[string]int    // JWE ciphertext -> number
	plain  map[string]string // JWE ciphertext -> plaintext it decrypts to
	fails  []failure
}

type failure struct{ sig, detail string }

func (w *world) fail(sig, detail string) {
	for _, f := range w.fails {
		if f.sig == sig {
			return
		}
	}

	w.fails = append(w.fails, failure{sig, detail})
}

func newWorld(c Case) (*world, error) {
	if c.Fmt < 0 || c.Fmt >= len(confs) {
		return nil, fmt.Errorf("no configuration %d", c.Fmt)
	}

	w := &world{cf: confs[c.Fmt], det: c.Det, tab: map[string]string{}, ceks: map[string]int{}, plain: map[string]string{}}
	if c.Rest {
		return w, w.initRest(c)
	}

	w.spy = &optSpy{Provider: mem.NewProvider()}
	w.rec = hx.NewRecProvider(w.spy)
	w.top = formattedstore.NewProvider(w.rec, w.cf.formatter(c.Det))

	for _, o := range c.Ops {
		if (o.Kind == "query" || o.Kind == "queryopts") && len(o.Q) > 1 {
			ss, ts := exprParts(o.Q)
			for i := range ss {
				w.cf.addMacs(w.tab, ss[i], ts[i])
			}
		}
	}

	s, err := w.top.OpenStore(storeName)
	if err != nil {
		return nil, err
	}

	w.store = s

	calls := w.rec.Snapshot()
	if len(calls) != 1 || calls[0].Op != "OpenStore" || calls[0].Store != storeName {
		return nil, fmt.Errorf("opening the store made unexpected provider calls: %+v", calls)
	}

	w.rec.Reset()

	return w, nil
}

func errOut(err error) Out {
	if errors.Is(err, spi.ErrDataNotFound) {
		return Out{Kind: "notfound", Err: err.Error()}
	}

	return Out{Kind: "err", Err: err.Error()}
}

func mkTags(t []Tag) []spi.Tag {
	r := make([]spi.Tag, len(t))
	for i, x := range t {
		r[i] = spi.Tag{Name: nameS[x[0]], Value: tvalS[x[1]]}
	}

	return r
}

func (w *world) numTags(tags []spi.Tag) []Tag {
	r := make([]Tag, len(tags))
	for i, x := range tags {
		r[i] = Tag{nameNum(x.Name), tvalNum(x.Value)}
		if w.rest && x.Name == "" { // the REST provider's key tag {"", key}
			r[i] = Tag{0, keyNum(x.Value)}
		}
	}

	return r
}

func (w *world) exec(o Op) (out Out) {
	defer func() {
		if r := recover(); r != nil {
			out = Out{Kind: "panic", Err: fmt.Sprint(r)}
		}
	}()

	s := w.store

	switch o.Kind {
	case "put":
		if err := s.Put(keyStr(o.K), valBytes(o.V), mkTags(o.T)...); err != nil {
			return errOut(err)
		}

		return Out{Kind: "done"}
	case "get":
		v, err := s.Get(keyStr(o.K))
		if err != nil {
			return errOut(err)
		}

		return Out{Kind: "val", V: valNum(v)}
	case "tags":
		t, err := s.GetTags(keyStr(o.K))
		if err != nil {
			return errOut(err)
		}

		return Out{Kind: "tags", T: w.numTags(t)}
	case "bulk":
		ks := make([]string, len(o.Ks))
		for i, k := range o.Ks {
			ks[i] = keyStr(k)
		}

		vs, err := s.GetBulk(ks...)
		if err != nil {
			return errOut(err)
		}

		r := Out{Kind: "bulk", Vs: make([]int, len(vs))}
		for i, v := range vs {
			r.Vs[i] = valNum(v)
		}

		return r
	case "query", "queryopts", "rquery":
		var qopts []spi.QueryOption

		expr := exprStr(o.Q)
		if o.Kind == "rquery" {
			parts := make([]string, len(o.Qs))
			for i, q := range o.Qs {
				parts[i] = exprStr(q)
			}

			expr = strings.Join(parts, "||")
		}

		for i, q := range o.O {
			switch q.K {
			case "s":
				ord := spi.SortAscending
				if i%2 == 1 {
					ord = spi.SortDescending
				}

				qopts = append(qopts, spi.WithSortOrder(&spi.SortOptions{Order: ord, TagName: nameS[q.N]}))
			case "p":
				qopts = append(qopts, spi.WithPageSize(q.N))
			case "i":
				qopts = append(qopts, spi.WithInitialPageNum(q.N))
			}
		}

		it, err := s.Query(expr, qopts...)
		if err != nil {
			return errOut(err)
		}

		defer func() { _ = it.Close() }()

		r := Out{Kind: "query", R: []Res{}}

		for {
			ok, err := it.Next()
			if err != nil {
				return errOut(err)
			}

			if !ok {
				break
			}

			k, err := it.Key()
			if err != nil {
				return errOut(err)
			}

			v, err := it.Value()
			if err != nil {
				return errOut(err)
			}

			t, err := it.Tags()
			if err != nil {
				return errOut(err)
			}

			r.R = append(r.R, Res{K: keyNum(k), V: valNum(v), T: w.numTags(t)})
			if len(r.R) > 50 {
				return Out{Kind: "err", Err: "iterator does not end"}
			}
		}

		sort.SliceStable(r.R, func(i, j int) bool { return r.R[i].K < r.R[j].K })

		return r
	case "delete":
		if err := s.Delete(keyStr(o.K)); err != nil {
			return errOut(err)
		}

		return Out{Kind: "done"}
	case "batch":
		ops := make([]spi.Operation, len(o.B))
		for i, b := range o.B {
			ops[i] = spi.Operation{Key: keyStr(b.K), Value: valBytes(b.V)}
			if len(b.T) > 0 {
				ops[i].Tags = mkTags(b.T)
			}
		}

		if err := s.Batch(ops); err != nil {
			return errOut(err)
		}

		return Out{Kind: "done"}
	case "flush":
		if err := s.Flush(); err != nil {
			return errOut(err)
		}

		return Out{Kind: "done"}
	case "reopen":
		err := s.Close()

		s2, err2 := w.top.OpenStore(storeName)
		if err2 != nil {
			return Out{Kind: "err", Err: "re-open: " + err2.Error()}
		}

		w.store = s2

		if err != nil {
			return errOut(err)
		}

		return Out{Kind: "done"}
	case "setcfg":
		names := make([]string, len(o.N))
		for i, n := range o.N {
			names[i] = nameS[n]
		}

		if err := w.top.SetStoreConfig(storeName, spi.StoreConfiguration{TagNames: names}); err != nil {
			return errOut(err)
		}

		return Out{Kind: "done"}
	case "getcfg":
		cfg, err := w.top.GetStoreConfig(storeName)
		if err != nil {
			return errOut(err)
		}

		r := Out{Kind: "tags", T: make([]Tag, len(cfg.TagNames))}
		for i, n := range cfg.TagNames {
			r.T[i] = Tag{nameNum(n), 0}
		}

		return r
	}

	return Out{Kind: "err", Err: "unknown op " + o.Kind}
}

// ---------- direct oracle: nothing readable in what the provider is given ----------

const b64chars = "ABCDEFGHIJKLMNOPQRSTUVWXYZabcdefghijklmnopqrstuvwxyz0123456789+/=_-"

// views returns arg and everything that decoding any base64/base58/hex looking run of it (at offsets 0..3) gives,
// recursively to the given depth.
func views(arg []byte, depth int, acc *[][]byte) {
	*acc = append(*acc, arg)
	if depth == 0 || len(arg) < 8 {
		return
	}

	i := 0
	for i < len(arg) {
		if strings.IndexByte(b64chars, arg[i]) < 0 {
			i++
			continue
		}

		j := i
		for j < len(arg) && strings.IndexByte(b64chars, arg[j]) >= 0 {
			j++
		}

		run := string(arg[i:j])
		if len(run) >= 8 {
			for off := 0; off < 4 && off < len(run)-4; off++ {
				r := run[off:]
				rs := strings.TrimRight(r, "=")
				for _, e := range []*base64.Encoding{base64.RawStdEncoding, base64.RawURLEncoding} {
					// decode the longest prefix that is valid for this alphabet
					n := len(rs) - len(rs)%4
					if len(rs)%4 >= 2 {
						n = len(rs)
					}

					if d, err := e.DecodeString(rs[:n]); err == nil && len(d) >= 4 {
						views(d, depth-1, acc)
					}
				}
			}

			if d, err := hex.DecodeString(run); err == nil && len(d) >= 4 {
				views(d, depth-1, acc)
			}

			if len(run) <= 400 {
				if d := base58.Decode(run); len(d) >= 4 {
					views(d, depth-1, acc)
				}
			}
		}

		i = j
	}
}

func (w *world) scan(callOp, what string, arg []byte) {
	if len(arg) == 0 {
		return
	}

	var vs [][]byte

	views(arg, 2, &vs)

	lower := bytes.ToLower(arg)

	for _, a := range atoms {
		for vi, v := range vs {
			if bytes.Contains(v, a.raw) {
				encn := "raw"
				if vi > 0 {
					encn = "encoded"
				}

				w.fail(fmt.Sprintf("leak:%s:%s:%s:%s", a.cls, encn, callOp, what),
					fmt.Sprintf("%s of a %s call on the underlying provider carries the application %s %q (%s): %.120q",
						what, callOp, a.cls, a.raw, encn, arg))

				break
			}
		}

		for name, e := range a.encs {
			hay := arg
			if name == "hex" {
				hay = lower
			}

			if bytes.Contains(hay, []byte(e)) {
				w.fail(fmt.Sprintf("leak:%s:%s:%s:%s", a.cls, "encoded", callOp, what),
					fmt.Sprintf("%s of a %s call on the underlying provider carries the application %s %q in %s: %.120q",
						what, callOp, a.cls, a.raw, name, arg))
			}
		}
	}
}

// ---------- abstraction of arguments to terms ----------

// b58 decodes base58 (the library indexes a 256-entry table by rune: non-ASCII input must not reach it)
func b58(s string) []byte {
	for _, c := range s {
		if c > 127 {
			return nil
		}
	}

	return base58.Decode(s)
}

func (w *world) str(s string) string {
	if s == "" {
		return "(L 0)"
	}

	if t, ok := w.tab[s]; ok {
		return t
	}

	if t, ok := w.cf.recog[s]; ok {
		return t
	}

	if d := b58(s); len(d) == 16 && base58.Encode(d) == s {
		t := fmt.Sprintf("(rI %d)", w.nRnd)
		w.nRnd++
		w.tab[s] = t

		return t
	}

	t := fmt.Sprintf("(L %d)", 1000+w.nUnk)
	w.nUnk++
	w.tab[s] = t

	return t
}

func (w *world) tags(tags []spi.Tag) string {
	s := make([]string, len(tags))
	for i, t := range tags {
		s[i] = "(" + w.str(t.Name) + ", " + w.str(t.Value) + ")"
	}

	return "[" + strings.Join(s, "; ") + "]"
}

type encDoc struct {
	ID       string          `json:"id"`
	Sequence int             `json:"sequence"`
	Indexed  json.RawMessage `json:"indexed,omitempty"`
	JWE      json.RawMessage `json:"jwe"`
}

type idxColl struct {
	Sequence int `json:"sequence"`
	HMAC     struct {
		ID   string `json:"id"`
		Type string `json:"type"`
	} `json:"hmac"`
	Attributes []struct {
		Name   string `json:"name"`
		Value  string `json:"value"`
		Unique bool   `json:"unique"`
	} `json:"attributes"`
}

type structDoc struct {
	ID      string                 `json:"id"`
	Meta    map[string]interface{} `json:"meta"`
	Content struct {
		Key   string    `json:"unformattedKey"`
		Value []byte    `json:"unformattedValue"`
		Tags  []spi.Tag `json:"unformattedTags"`
	} `json:"content"`
}

func (w *world) unk() string {
	t := fmt.Sprintf("(L %d)", 1000+w.nUnk)
	w.nUnk++

	return t
}

// plainStr: a string found INSIDE a decrypted document
func (w *world) plainKey(s string) string {
	switch {
	case s == "":
		return "(L 0)"
	case s == cfgKey:
		return "(L 3)"
	}

	if n, ok := rev(keyS, s); ok {
		return fmt.Sprintf("(aK %d)", n)
	}

	return w.str(s)
}

func (w *world) plainTag(t spi.Tag) string {
	if w.rest && t.Name == "" {
		return "((L 0), " + w.plainKey(t.Value) + ")"
	}

	if t.Name == keyTagName {
		v := w.unk()
		if d, err := base64.StdEncoding.DecodeString(t.Value); err == nil {
			v = "(b6 " + w.plainKey(string(d)) + ")"
		}

		return "((L 1), " + v + ")"
	}

	n, v := w.unk(), "(L 0)"
	if x, ok := rev(nameS, t.Name); ok {
		n = fmt.Sprintf("(aN %d)", x)
	}

	if t.Value != "" {
		v = w.unk()
		if x, ok := rev(tvalS, t.Value); ok {
			v = fmt.Sprintf("(aT %d)", x)
		}
	}

	return "(" + n + ", " + v + ")"
}

// doc parses a stored value, opens its JWE with the configured key (and tries another party's key), and prints
// the term (eD id indexed cek key value tags).
func (w *world) doc(callOp string, b []byte) string {
	var top map[string]json.RawMessage
	if err := json.Unmarshal(b, &top); err != nil {
		w.fail("doc:not-json:"+callOp, fmt.Sprintf("stored value is not a JSON document: %.80q", b))
		return w.unk()
	}

	for k := range top {
		if k != "id" && k != "sequence" && k != "indexed" && k != "jwe" {
			w.fail("doc:extra-field:"+callOp, fmt.Sprintf("stored document has a field %q outside the EDV encrypted document", k))
		}
	}

	var d encDoc
	if err := json.Unmarshal(b, &d); err != nil {
		w.fail("doc:shape:"+callOp, err.Error())
		return w.unk()
	}

	idx := "[]"

	if len(d.Indexed) > 0 {
		var colls []idxColl
		if err := json.Unmarshal(d.Indexed, &colls); err != nil || len(colls) != 1 {
			w.fail("doc:indexed:"+callOp, fmt.Sprintf("indexed attribute collections unreadable or not exactly one: %.120q", d.Indexed))
			return w.unk()
		}

		if colls[0].HMAC.ID != "" || colls[0].HMAC.Type != "" {
			w.fail("doc:indexed-hmac:"+callOp, "indexed attribute collection names a key")
		}

		t := make([]spi.Tag, len(colls[0].Attributes))
		for i, a := range colls[0].Attributes {
			t[i] = spi.Tag{Name: a.Name, Value: a.Value}
		}

		idx = w.tags(t)
	}

	j, err := jose.Deserialize(string(d.JWE))
	if err != nil {
		w.fail("doc:jwe:"+callOp, "stored document's jwe does not deserialize: "+err.Error())
		return w.unk()
	}

	if len(j.Recipients) != 1 {
		w.fail("doc:recipients:"+callOp, fmt.Sprintf("stored JWE has %d recipients, the formatter was configured with one", len(j.Recipients)))
	}

	pt, err := w.cf.dec.Decrypt(j)
	if err != nil {
		w.fail("decrypt:configured-key-fails:"+callOp, "the stored document does not open with the configured key: "+err.Error())
		return w.unk()
	}

	if j2, err2 := jose.Deserialize(string(d.JWE)); err2 == nil {
		if pt2, err3 := w.cf.wrongDec.Decrypt(j2); err3 == nil {
			w.fail("decrypt:other-key-opens:"+callOp, fmt.Sprintf("the stored document opens with another party's key: %.60q", pt2))
		}
	}

	ctKey := j.Ciphertext
	if ctKey == "" {
		ctKey = string(d.JWE)
	}

	n, seen := w.ceks[ctKey]
	if seen {
		w.fail("ciphertext:repeated:"+callOp, "two stored documents carry the same JWE ciphertext (equal plaintexts gave equal ciphertexts)")
	} else {
		n = len(w.ceks)
		w.ceks[ctKey] = n
	}

	for ct, p := range w.plain {
		if p == string(pt) && ct != ctKey && (len(ct) > 16 && len(ctKey) > 16 && ct[:16] == ctKey[:16]) {
			w.fail("ciphertext:common-prefix:"+callOp, "two encryptions of one plaintext start with the same 12 ciphertext bytes")
		}
	}

	w.plain[ctKey] = string(pt)

	var sd structDoc
	if err := json.Unmarshal(pt, &sd); err != nil {
		w.fail("doc:content:"+callOp, "decrypted content is not a structured document: "+err.Error())
		return w.unk()
	}

	k := w.plainKey(sd.Content.Key)

	var v string

	if sd.Content.Key == cfgKey {
		var cfg spi.StoreConfiguration
		if err := json.Unmarshal(sd.Content.Value, &cfg); err != nil {
			v = w.unk()
		} else {
			ns := make([]string, len(cfg.TagNames))
			for i, x := range cfg.TagNames {
				ns[i] = fmt.Sprint(nameNum(x))
			}

			v = "(cV [" + strings.Join(ns, ";") + "])"
		}
	} else if x := valNum(sd.Content.Value); x != 77 && x != 0 {
		v = fmt.Sprintf("(aV %d)", x)
	} else {
		v = w.unk()
	}

	ts := make([]string, len(sd.Content.Tags))
	for i, t := range sd.Content.Tags {
		ts[i] = w.plainTag(t)
	}

	return fmt.Sprintf("(eD %s %s %d %s %s [%s])", w.str(d.ID), idx, n, k, v, strings.Join(ts, "; "))
}

func sidOf(name string) string {
	switch name {
	case storeName:
		return "0"
	case storeName + cfgSuffix:
		return "1"
	}

	return "99"
}

// call scans one recorded call and prints it as a term of type call.  ok = false: not a call of the model's alphabet.
func (w *world) call(c hx.Call) (string, bool) {
	s := sidOf(c.Store)

	switch c.Op {
	case "OpenStore":
		return "COpen " + s, true
	case "SetStoreConfig":
		ns := make([]string, len(c.Config))
		for i, n := range c.Config {
			w.scan(c.Op, "tag name", []byte(n))
			ns[i] = w.str(n)
		}

		return "CSetCfg " + s + " [" + strings.Join(ns, "; ") + "]", true
	case "Put":
		w.scan(c.Op, "key", []byte(c.Key))
		w.scan(c.Op, "value", c.Value)

		for _, t := range c.Tags {
			w.scan(c.Op, "tag name", []byte(t.Name))
			w.scan(c.Op, "tag value", []byte(t.Value))
		}

		return fmt.Sprintf("CPut %s %s %s %s", s, w.str(c.Key), w.doc(c.Op, c.Value), w.tags(c.Tags)), true
	case "Get", "GetTags", "Delete":
		w.scan(c.Op, "key", []byte(c.Key))

		return map[string]string{"Get": "CGet", "GetTags": "CGetTags", "Delete": "CDelete"}[c.Op] + " " + s + " " + w.str(c.Key), true
	case "GetBulk":
		ks := make([]string, len(c.Keys))
		for i, k := range c.Keys {
			w.scan(c.Op, "key", []byte(k))
			ks[i] = w.str(k)
		}

		return "CGetBulk " + s + " [" + strings.Join(ks, "; ") + "]", true
	case "Query":
		w.scan(c.Op, "expression", []byte(c.Expr))

		sort := ""
		if w.nQuery < len(w.spy.sorts) && !c.Inject {
			sort = w.spy.sorts[w.nQuery]
			w.nQuery++
		}

		p := strings.SplitN(c.Expr, ":", 2)
		v := "None"

		if len(p) == 2 {
			v = "(Some " + w.str(p[1]) + ")"
		}

		if sort != "" {
			w.scan(c.Op, "sort option tag name", []byte(sort))

			return "CQuerySort " + s + " " + w.str(p[0]) + " " + v + " " + w.str(sort), true
		}

		return "CQuery " + s + " " + w.str(p[0]) + " " + v, true
	case "Batch":
		ops := make([]string, len(c.Ops))

		for i, o := range c.Ops {
			w.scan(c.Op, "key", []byte(o.Key))
			w.scan(c.Op, "value", o.Value)

			for _, t := range o.Tags {
				w.scan(c.Op, "tag name", []byte(t.Name))
				w.scan(c.Op, "tag value", []byte(t.Value))
			}

			v := "None"
			if o.Value != nil {
				v = "(Some " + w.doc(c.Op, o.Value) + ")"
			}

			ops[i] = "(" + w.str(o.Key) + ", " + v + ", " + w.tags(o.Tags) + ")"
		}

		return "CBatch " + s + " [" + strings.Join(ops, "; ") + "]", true
	case "Flush":
		return "CFlush " + s, true
	case "Close":
		return "CClose " + s, true
	}

	return "", false
}

// ---------- Coq printers (as in harness/c11) ----------

func coqTags(t []Tag) string {
	s := make([]string, len(t))
	for i, x := range t {
		s[i] = fmt.Sprintf("(%d,%d)", x[0], x[1])
	}

	return "[" + strings.Join(s, ";") + "]"
}

func coqNs(ns []int) string {
	s := make([]string, len(ns))
	for i, x := range ns {
		s[i] = fmt.Sprint(x)
	}

	return "[" + strings.Join(s, ";") + "]"
}

func coqOp(o Op) string {
	switch o.Kind {
	case "put":
		return fmt.Sprintf("XS (Put %d %d %s)", o.K, o.V, coqTags(o.T))
	case "get":
		return fmt.Sprintf("XS (Get %d)", o.K)
	case "tags":
		return fmt.Sprintf("XS (GetTags %d)", o.K)
	case "bulk":
		return "XS (GetBulk " + coqNs(o.Ks) + ")"
	case "query":
		return "XS (Query " + coqTags(o.Q) + ")"
	case "queryopts":
		qs := make([]string, len(o.O))
		for i, q := range o.O {
			qs[i] = fmt.Sprintf("%s %d", map[string]string{"s": "QSort", "p": "QPage", "i": "QInit"}[q.K], q.N)
		}

		return "XQueryOpts " + coqTags(o.Q) + " [" + strings.Join(qs, "; ") + "]"
	case "delete":
		return fmt.Sprintf("XS (Delete %d)", o.K)
	case "batch":
		s := make([]string, len(o.B))
		for i, b := range o.B {
			s[i] = fmt.Sprintf("(%d,%d,%s)", b.K, b.V, coqTags(b.T))
		}

		return "XS (Batch [" + strings.Join(s, ";") + "])"
	case "flush":
		return "XS Flush"
	case "reopen":
		return "XS Reopen"
	case "setcfg":
		return "XSetCfg " + coqNs(o.N)
	}

	return "XGetCfg"
}

func coqOut(o Out) string {
	switch o.Kind {
	case "done":
		return "ODone"
	case "notfound":
		return "ONotFound"
	case "val":
		return fmt.Sprintf("OVal %d", o.V)
	case "tags":
		return "OTags " + coqTags(o.T)
	case "bulk":
		return "OBulk " + coqNs(o.Vs)
	case "query":
		s := make([]string, len(o.R))
		for i, r := range o.R {
			s[i] = fmt.Sprintf("(%d,(%d,%s))", r.K, r.V, coqTags(r.T))
		}

		return "OQuery [" + strings.Join(s, ";") + "]"
	}

	return "OErr"
}

// ---------- running one case ----------

func runCase(kind string, c Case, tr *hx.Trace, withCoq bool) {
	rec := &hx.Record{Kind: kind, Case: c}

	w, err := newWorld(c)
	if err != nil {
		rec.Oracle, rec.Sig, rec.Detail = "fail", "setup", err.Error()
		tr.Put(rec)

		return
	}

	defer func() { _ = w.top.Close() }()

	mode := "random-ids"
	if c.Det {
		mode = "deterministic-ids"
	}

	if c.Rest {
		mode = fmt.Sprintf("REST:%s:full=%v:batchext=%v", mode, c.Full, c.BExt)
	}

	steps := make([]string, 0, len(c.Ops))
	outs := make([]Out, 0, len(c.Ops))
	classParts := []string{mode}
	stored, nCalls := 0, 0
	dist := map[string]bool{"mode=" + mode: true, "conf=" + w.cf.name: true}

	for _, o := range c.Ops {
		if c.Rest {
			w.srv.reset()
		} else {
			w.rec.Reset()
		}

		got := w.exec(o)

		var calls []hx.Call
		if !c.Rest {
			calls = w.rec.Snapshot()
		}

		outs = append(outs, got)

		if got.Kind == "panic" {
			w.fail("panic:"+o.Kind, got.Err)
		}

		cs := make([]string, 0, len(calls))
		ck := make([]string, 0, len(calls))

		for _, cl := range calls {
			t, ok := w.call(cl)
			if !ok {
				continue
			}

			cs = append(cs, t)
			ck = append(ck, cl.Op)
			nCalls++

			if cl.Op == "Put" {
				stored++
			}

			for _, bo := range cl.Ops {
				if bo.Value != nil {
					stored++
				}
			}

			dist["call="+cl.Op] = true
		}

		if c.Rest {
			for _, q := range w.srv.snapshot() {
				t, kind := w.rcall(q)
				cs = append(cs, t)
				ck = append(ck, kind)
				nCalls++
				dist["call="+kind] = true
			}

			stored = len(w.ceks)
			steps = append(steps, "("+coqROp(o)+", "+coqOut(got)+", ["+strings.Join(cs, "; ")+"])")
			classParts = append(classParts, o.Kind+">"+got.Kind+">"+strings.Join(ck, "+"))
			dist["op="+o.Kind] = true
			dist["out="+got.Kind] = true

			continue
		}

		steps = append(steps, "("+coqOp(o)+", "+coqOut(got)+", ["+strings.Join(cs, "; ")+"])")
		classParts = append(classParts, o.Kind+">"+got.Kind+">"+strings.Join(ck, "+"))
		dist["op="+o.Kind] = true
		dist["out="+got.Kind] = true
	}

	if withCoq {
		rec.Coq = fmt.Sprintf("FsCase %s [%s]", hx.CoqBool(c.Det), strings.Join(steps, ";\n   "))
		if c.Rest {
			rec.Coq = fmt.Sprintf("RestCase %s %s %s [%s]", hx.CoqBool(c.Det), hx.CoqBool(c.Full), hx.CoqBool(c.BExt),
				strings.Join(steps, ";\n   "))
		}
	}

	if len(w.fails) > 0 {
		rec.Oracle, rec.Sig, rec.Detail = "fail", w.fails[0].sig, w.fails[0].detail
		if len(w.fails) > 1 {
			rec.Detail += fmt.Sprintf(" (+%d more classes, e.g. %s)", len(w.fails)-1, w.fails[1].sig)
		}
	}

	rec.Observed = map[string]interface{}{"results": outs, "provider_calls": nCalls, "documents_stored": stored}
	rec.Class = strings.Join(classParts, ",")
	rec.Trivial = stored == 0
	rec.Dist = append(rec.Dist, fmt.Sprintf("len=%d", len(c.Ops)/5*5), fmt.Sprintf("stored=%d", stored/3*3))

	for d := range dist {
		rec.Dist = append(rec.Dist, d)
	}

	sort.Strings(rec.Dist)
	tr.Put(rec)
}

// ---------- generators ----------

var tagSets = [][]Tag{nil, {{1, 1}}, {{1, 2}}, {{2, 1}}, {{1, 1}, {2, 2}}, {{1, 2}, {2, 0}}, {{2, 2}}, {{1, 0}}, {{3, 3}, {1, 1}}}

var queries = [][]Tag{{{1, 0}}, {{1, 1}}, {{1, 2}}, {{2, 0}}, {{2, 2}}, {{3, 3}}, {{1, 1}, {2, 2}}, {{1, 0}, {2, 0}}, {{1, 1}, {2, 0}}, {{1, 0}, {2, 2}}, {{3, 0}}}

var cfgSets = [][]int{nil, {1}, {1, 2}, {2, 3}, {1, 2, 3}, {9}, {1, 9}}

func randTags(r *hx.Rng) []Tag {
	if r.Intn(25) == 0 {
		return [][]Tag{{{9, 1}}, {{1, 9}}, {{1, 1}, {9, 0}}}[r.Intn(3)]
	}

	return tagSets[r.Intn(len(tagSets))]
}

func randKey(r *hx.Rng) int {
	if r.Intn(30) == 0 {
		return 0
	}

	return 1 + r.Intn(3)
}

func randOp(r *hx.Rng) Op {
	x := r.Intn(100)

	switch {
	case x < 26:
		v := 1 + r.Intn(3)
		if r.Intn(30) == 0 {
			v = 0
		}

		return Op{Kind: "put", K: randKey(r), V: v, T: randTags(r)}
	case x < 34:
		return Op{Kind: "get", K: randKey(r)}
	case x < 42:
		return Op{Kind: "tags", K: randKey(r)}
	case x < 47:
		n := r.Intn(4)
		ks := make([]int, n)

		for i := range ks {
			ks[i] = 1 + r.Intn(3)
		}

		if n > 0 && r.Intn(15) == 0 {
			ks[r.Intn(n)] = 0
		}

		return Op{Kind: "bulk", Ks: ks}
	case x < 60:
		q := queries[r.Intn(len(queries))]
		if r.Intn(40) == 0 {
			q = nil
		}

		return Op{Kind: "query", Q: q}
	case x < 69:
		return Op{Kind: "delete", K: randKey(r)}
	case x < 86:
		n := r.Intn(5)
		if r.Intn(3) > 0 && n == 0 {
			n = 1
		}

		b := make([]BOp, n)

		for i := range b {
			b[i] = BOp{K: 1 + r.Intn(3)}
			if r.Intn(3) > 0 {
				b[i].V = 1 + r.Intn(3)
			}

			if r.Intn(4) > 0 {
				b[i].T = tagSets[r.Intn(len(tagSets))]
			}
		}

		if n > 0 && r.Intn(20) == 0 {
			b[r.Intn(n)].K = 0
		}

		return Op{Kind: "batch", B: b}
	case x < 88:
		return Op{Kind: "flush"}
	case x < 91:
		return Op{Kind: "reopen"}
	case x < 95:
		return Op{Kind: "setcfg", N: cfgSets[r.Intn(len(cfgSets))]}
	case x < 98:
		return Op{Kind: "queryopts", Q: queries[r.Intn(len(queries))], O: randQOpts(r)}
	}

	return Op{Kind: "getcfg"}
}

// randQOpts: 0..3 sort options (same / different / empty tag names) with page size and initial page options in any order
func randQOpts(r *hx.Rng) []QOpt {
	n := r.Intn(5)
	o := make([]QOpt, 0, n)

	for i := 0; i < n; i++ {
		switch x := r.Intn(10); {
		case x < 6:
			nm := 1 + r.Intn(3)
			if r.Intn(12) == 0 {
				nm = 0
			}

			o = append(o, QOpt{"s", nm})
		case x < 9:
			o = append(o, QOpt{"p", 1 + r.Intn(30)})
		default:
			o = append(o, QOpt{"i", r.Intn(2)})
		}
	}

	return o
}

// remap replaces the working alphabet 1..3 of a generated history by the case's choice of keys, tag names and tag
// values (0 = empty and 9 = contains ':' stay).
func remap(ops []Op, km, nm, vm [4]int) []Op {
	k := func(x int) int {
		if x >= 1 && x <= 3 {
			return km[x]
		}

		return x
	}
	tg := func(t []Tag) []Tag {
		if t == nil {
			return nil
		}

		r := make([]Tag, len(t))
		for i, x := range t {
			r[i] = x
			if x[0] >= 1 && x[0] <= 3 {
				r[i][0] = nm[x[0]]
			}

			if x[1] >= 1 && x[1] <= 3 {
				r[i][1] = vm[x[1]]
			}
		}

		return r
	}
	out := make([]Op, len(ops))

	for i, o := range ops {
		n := o
		n.K, n.T, n.Q = k(o.K), tg(o.T), tg(o.Q)

		if o.Ks != nil {
			n.Ks = make([]int, len(o.Ks))
			for j, x := range o.Ks {
				n.Ks[j] = k(x)
			}
		}

		if o.B != nil {
			n.B = make([]BOp, len(o.B))
			for j, b := range o.B {
				n.B[j] = BOp{K: k(b.K), V: b.V, T: tg(b.T)}
			}
		}

		if o.N != nil {
			n.N = make([]int, len(o.N))
			for j, x := range o.N {
				n.N[j] = x
				if x >= 1 && x <= 3 {
					n.N[j] = nm[x]
				}
			}
		}

		if o.O != nil {
			n.O = make([]QOpt, len(o.O))
			for j, q := range o.O {
				n.O[j] = q
				if q.K == "s" && q.N >= 1 && q.N <= 3 {
					n.O[j].N = nm[q.N]
				}
			}
		}

		out[i] = n
	}

	return out
}

// pick3 chooses three different members of a class (index 0 unused).
func pick3(r *hx.Rng, from []int) [4]int {
	p := append([]int{}, from...)
	for i := len(p) - 1; i > 0; i-- {
		j := r.Intn(i + 1)
		p[i], p[j] = p[j], p[i]
	}

	return [4]int{0, p[0], p[1], p[2]}
}

func randMaps(r *hx.Rng) (km, nm, vm [4]int) {
	return pick3(r, []int{1, 2, 3, 4, 5, 6, 7, 8}), pick3(r, []int{1, 2, 3, 4, 5}), pick3(r, []int{1, 2, 3, 4, 5})
}

func probe(r *hx.Rng) []Op {
	var ops []Op

	for _, k := range []int{1, 2, 3} {
		if r.Bool() {
			ops = append(ops, Op{Kind: "get", K: k}, Op{Kind: "tags", K: k})
		} else {
			ops = append(ops, Op{Kind: "tags", K: k}, Op{Kind: "get", K: k})
		}
	}

	ops = append(ops, Op{Kind: "bulk", Ks: []int{1, 2, 3}}, Op{Kind: "getcfg"})

	for i := 0; i < 3; i++ {
		ops = append(ops, Op{Kind: "query", Q: queries[r.Intn(len(queries))]})
	}

	return ops
}

func randomCase(r *hx.Rng, n int) Case {
	c := Case{Det: r.Bool(), Fmt: r.Intn(len(confs))}
	if confs[c.Fmt].batch {
		c.Det = true // the batch path takes the document id from the KMS answer: deterministic ids only
	}

	ops := make([]Op, 0, n+12)

	if r.Intn(3) > 0 {
		ops = append(ops, Op{Kind: "setcfg", N: cfgSets[1+r.Intn(4)]})
	}

	for len(ops) < n {
		ops = append(ops, randOp(r))
	}

	km, nm, vm := randMaps(r)
	c.Ops = remap(append(ops, probe(r)...), km, nm, vm)

	return c
}

// largeOp: one operation whose ARGUMENT LIST is long (the ordinary generators keep every list at 0..4 entries):
// bulk reads of 90..320 keys, batches of 60..180 operations, puts with 20..70 tags, configurations with 20..60 names.
// Code that treats long requests differently (chunking, paging, size limits) is only reached this way.
func largeOp(r *hx.Rng) Op {
	k3 := func() int { return 1 + r.Intn(3) }

	switch r.Intn(6) {
	case 0, 1, 2:
		n := 90 + r.Intn(231)
		ks := make([]int, n)

		for i := range ks {
			ks[i] = k3()
		}

		return Op{Kind: "bulk", Ks: ks}
	case 3:
		n := 60 + r.Intn(121)
		b := make([]BOp, n)

		for i := range b {
			b[i] = BOp{K: k3()}
			if r.Intn(4) > 0 {
				b[i].V = 1 + r.Intn(3)
				b[i].T = tagSets[r.Intn(len(tagSets))]
			}
		}

		return Op{Kind: "batch", B: b}
	case 4:
		n := 20 + r.Intn(51)
		t := make([]Tag, n)

		for i := range t {
			t[i] = Tag{1 + r.Intn(3), r.Intn(4)}
		}

		return Op{Kind: "put", K: k3(), V: 1 + r.Intn(3), T: t}
	}

	n := 20 + r.Intn(41)
	ns := make([]int, n)

	for i := range ns {
		ns[i] = 1 + r.Intn(3)
	}

	return Op{Kind: "setcfg", N: ns}
}

// largeCase: a short ordinary history with 1..2 large operations in it, in any configuration (also REST)
func largeCase(r *hx.Rng) Case {
	var c Case

	rest := r.Intn(3) == 0
	if rest {
		c = randomRestCase(r, 3+r.Intn(5))
	} else {
		c = randomCase(r, 3+r.Intn(5))
	}

	km, nm, vm := randMaps(r)
	if rest {
		km, nm, vm = restMaps(r)
	}

	for i, n := 0, 1+r.Intn(2); i < n; i++ {
		o := remap([]Op{largeOp(r)}, km, nm, vm)[0]
		at := 1 + r.Intn(len(c.Ops))
		c.Ops = append(c.Ops[:at:at], append([]Op{o}, c.Ops[at:]...)...)
	}

	return c
}

func corpus(dir string, tr *hx.Trace) {
	files, _ := filepath.Glob(filepath.Join(dir, "*.json"))
	sort.Strings(files)

	for _, f := range files {
		b, err := os.ReadFile(f)
		if err != nil {
			continue
		}

		var c Case
		if json.Unmarshal(b, &c) != nil || len(c.Ops) == 0 {
			fmt.Fprintln(os.Stderr, "bad corpus file", f)
			os.Exit(2)
		}

		runCase("corpus:"+filepath.Base(f), c, tr, true)
	}
}

// every sequence of length <= depth over a reduced alphabet, in both id modes, followed by a short read-back
func exhaustive(depth int, tr *hx.Trace, rng *hx.Rng) {
	alpha := []Op{
		{Kind: "setcfg", N: []int{1, 2}},
		{Kind: "put", K: 1, V: 1, T: []Tag{{1, 1}}},
		{Kind: "put", K: 1, V: 1, T: []Tag{{1, 1}}},
		{Kind: "put", K: 1, V: 2},
		{Kind: "put", K: 2, V: 1, T: []Tag{{1, 2}, {2, 0}}},
		{Kind: "tags", K: 1},
		{Kind: "delete", K: 1},
		{Kind: "query", Q: []Tag{{1, 0}}},
		{Kind: "query", Q: []Tag{{1, 1}}},
		{Kind: "queryopts", Q: []Tag{{1, 1}}, O: []QOpt{{"p", 2}, {"s", 2}}},
		{Kind: "queryopts", Q: []Tag{{1, 0}}, O: []QOpt{{"s", 1}, {"p", 5}, {"s", 2}}},
		{Kind: "put", K: 3, V: 2, T: []Tag{{3, 3}}},
		{Kind: "batch", B: []BOp{{K: 1, V: 3, T: []Tag{{2, 2}}}, {K: 1, T: []Tag{{1, 1}}}, {K: 1, V: 1}}},
		{Kind: "batch", B: []BOp{{K: 2}, {K: 1, V: 1, T: []Tag{{1, 2}}}}},
		{Kind: "reopen"},
		{Kind: "getcfg"},
	}
	tail := []Op{{Kind: "get", K: 1}, {Kind: "bulk", Ks: []int{1, 2}}, {Kind: "query", Q: []Tag{{1, 0}}}, {Kind: "query", Q: []Tag{{2, 2}}}}

	var rec func(prefix []Op)

	n := 0

	rec = func(prefix []Op) {
		if len(prefix) > 0 {
			km, nm, vm := randMaps(rng.Fork(uint64(7_000_000 + n)))

			for _, det := range []bool{true, false} {
				if !det && confs[n%len(confs)].batch {
					continue
				}

				runCase("exhaustive", Case{Det: det, Fmt: n % len(confs),
					Ops: remap(append(append([]Op{}, prefix...), tail...), km, nm, vm)}, tr, true)
			}

			n++
		}

		if len(prefix) == depth {
			return
		}

		for _, o := range alpha {
			rec(append(append([]Op{}, prefix...), o))
		}
	}

	rec(nil)
}

func main() {
	args := hx.ParseArgs()
	tr := hx.NewTrace(args.Out)

	defer tr.Close()

	for _, x := range []struct {
		name string
		kt   kms.KeyType
		alg  jose.EncAlg
	}{
		{"P256KW+A256GCM", kms.NISTP256ECDHKWType, jose.A256GCM},
		{"X25519KW+XC20P", kms.X25519ECDHKWType, jose.XC20P},
		{"P256KW+A256GCM+BatchCrypto", kms.NISTP256ECDHKWType, jose.A256GCM},
	} {
		cf, err := newConf(x.name, x.kt, x.alg)
		if err != nil {
			fmt.Fprintln(os.Stderr, "cannot build the formatter configuration", x.name, err)
			os.Exit(2)
		}

		cf.batch = strings.HasSuffix(x.name, "BatchCrypto")
		confs = append(confs, cf)
	}

	if args.Replay != "" {
		b, err := os.ReadFile(args.Replay)
		if err != nil {
			fmt.Fprintln(os.Stderr, err)
			os.Exit(2)
		}

		var c struct {
			Case *Case `json:"case"`
		}

		_ = json.Unmarshal(b, &c)
		if c.Case == nil {
			c.Case = &Case{}
			_ = json.Unmarshal(b, c.Case)
		}

		runCase("replay", *c.Case, tr, true)

		return
	}

	corpus(args.Extra, tr)

	rng := hx.NewRng(args.Seed)
	thorough := args.Tier == "thorough"

	exDepth, nRandom := 2, 2500
	if thorough {
		exDepth, nRandom = 3, 20000
	}

	exhaustive(exDepth, tr, rng)
	restExhaustive(2, tr, rng) // depth 2 in both tiers (the thorough tier widens the random REST histories)

	for j := 0; j < nRandom; j++ {
		r := rng.Fork(uint64(j))
		runCase("random", randomCase(r, 4+r.Intn(22)), tr, true)
	}

	for j := 0; j < nRandom/30; j++ {
		runCase("random-large", largeCase(rng.Fork(uint64(11_000_000+j))), tr, true)
	}

	for j := 0; j < nRandom/5; j++ {
		r := rng.Fork(uint64(9_000_000 + j))
		runCase("random-rest", randomRestCase(r, 4+r.Intn(22)), tr, true)
	}
}
