package main

import (
	spi "github.com/hyperledger/aries-framework-go/spi/storage"
)

// optSpy sits between the recording provider and the in-memory provider and notes what the options of every Query
// call carry (hx.RecProvider records the expression only): the tag name of a sort option is an argument the
// underlying provider receives like any other.
type optSpy struct {
	spi.Provider
	sorts []string // per Query call, in order: the sort option's tag name ("" = none)
}

func (p *optSpy) OpenStore(name string) (spi.Store, error) {
	s, err := p.Provider.OpenStore(name)
	if err != nil {
		return nil, err
	}

	return &spyStore{Store: s, p: p}, nil
}

type spyStore struct {
	spi.Store
	p *optSpy
}

func (s *spyStore) Query(expression string, options ...spi.QueryOption) (spi.Iterator, error) {
	var qo spi.QueryOptions

	for _, o := range options {
		if o != nil {
			o(&qo)
		}
	}

	name := ""
	if qo.SortOptions != nil {
		name = qo.SortOptions.TagName
	}

	s.p.sorts = append(s.p.sorts, name)

	return s.Store.Query(expression, options...)
}
