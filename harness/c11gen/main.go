// c11gen: translator for C11.  Reads /repo's source with go/ast and regenerates coq/gen/Gen_C11.v:
//
//	spi/storage/storage.go                    the method sets of the Provider, Store and Iterator interfaces
//	component/storage, component/storageutil  every type that has all Provider methods / all Store methods
//	                                          (non-test files; the package directory and the type name)
//	component/storageutil/cachedstore         per Store method of the wrapper: the calls on the MAIN store, in source order
//	component/storageutil/batchedstore        per Store method of the wrapper: the calls on the UNDERLYING store, in source
//	                                          order, calls of the wrapper's own methods (flush, Flush) inlined
//
// usage: c11gen <repo> <out>
package main

import (
	"fmt"
	"go/ast"
	"go/parser"
	"go/token"
	"os"
	"path/filepath"
	"sort"
	"strings"
)

func fail(f string, a ...interface{}) {
	fmt.Fprintf(os.Stderr, "c11gen: "+f+"\n", a...)
	os.Exit(1)
}

func recvName(fd *ast.FuncDecl) (typ, name string) {
	if fd.Recv == nil || len(fd.Recv.List) != 1 {
		return "", ""
	}

	t := fd.Recv.List[0].Type
	if st, ok := t.(*ast.StarExpr); ok {
		t = st.X
	}

	id, ok := t.(*ast.Ident)
	if !ok {
		return "", ""
	}

	if len(fd.Recv.List[0].Names) == 1 {
		name = fd.Recv.List[0].Names[0].Name
	}

	return id.Name, name
}

func ifaceMethods(f *ast.File, name string) []string {
	var out []string

	ast.Inspect(f, func(n ast.Node) bool {
		ts, ok := n.(*ast.TypeSpec)
		if !ok || ts.Name.Name != name {
			return true
		}

		it, ok := ts.Type.(*ast.InterfaceType)
		if !ok {
			return true
		}

		for _, m := range it.Methods.List {
			for _, id := range m.Names {
				out = append(out, id.Name)
			}
		}

		return false
	})

	if len(out) == 0 {
		fail("interface %s not found", name)
	}

	return out
}

func coqStrs(l []string) string {
	q := make([]string, len(l))
	for i, s := range l {
		q[i] = `"` + s + `"`
	}

	return "[" + strings.Join(q, "; ") + "]"
}

// calls of one method on fields of the receiver (field.Method) and on the receiver itself (.method), in source order
func skeleton(fd *ast.FuncDecl, recv string) []string {
	var out []string

	ast.Inspect(fd.Body, func(n ast.Node) bool {
		ce, ok := n.(*ast.CallExpr)
		if !ok {
			return true
		}

		sel, ok := ce.Fun.(*ast.SelectorExpr)
		if !ok {
			return true
		}

		switch x := sel.X.(type) {
		case *ast.Ident:
			if x.Name == recv {
				out = append(out, "."+sel.Sel.Name)
			}
		case *ast.SelectorExpr:
			if id, ok := x.X.(*ast.Ident); ok && id.Name == recv {
				out = append(out, x.Sel.Name+"."+sel.Sel.Name)
			}
		}

		return true
	})

	return out
}

func wrapperCalls(path, typ, field string, methods []string) string {
	fset := token.NewFileSet()

	f, err := parser.ParseFile(fset, path, nil, 0)
	if err != nil {
		fail("parse %s: %v", path, err)
	}

	sk := map[string][]string{}

	for _, d := range f.Decls {
		fd, ok := d.(*ast.FuncDecl)
		if !ok || fd.Body == nil {
			continue
		}

		if t, r := recvName(fd); t == typ {
			sk[fd.Name.Name] = skeleton(fd, r)
		}
	}

	var flat func(m string, depth int) []string

	flat = func(m string, depth int) []string {
		var out []string

		if depth > 4 {
			fail("%s: self calls nest too deep at %s", path, m)
		}

		for _, c := range sk[m] {
			switch {
			case strings.HasPrefix(c, field+"."):
				out = append(out, strings.TrimPrefix(c, field+"."))
			case strings.HasPrefix(c, "."):
				if _, ok := sk[c[1:]]; ok {
					out = append(out, flat(c[1:], depth+1)...)
				}
			}
		}

		return out
	}

	var rows []string

	for _, m := range methods {
		if _, ok := sk[m]; !ok {
			fail("%s: type %s has no method %s", path, typ, m)
		}

		rows = append(rows, fmt.Sprintf("  (\"%s\", %s)", m, coqStrs(flat(m, 0))))
	}

	return "[\n" + strings.Join(rows, ";\n") + "]"
}

func main() {
	if len(os.Args) != 3 {
		fail("usage: c11gen <repo> <out>")
	}

	repo, out := os.Args[1], os.Args[2]
	fset := token.NewFileSet()

	spi, err := parser.ParseFile(fset, filepath.Join(repo, "spi/storage/storage.go"), nil, 0)
	if err != nil {
		fail("parse spi/storage: %v", err)
	}

	pm, sm, im := ifaceMethods(spi, "Provider"), ifaceMethods(spi, "Store"), ifaceMethods(spi, "Iterator")

	// every type with all Provider methods / all Store methods
	type key struct{ dir, typ string }

	have := map[key]map[string]bool{}

	for _, root := range []string{"component/storage", "component/storageutil"} {
		err := filepath.Walk(filepath.Join(repo, root), func(p string, info os.FileInfo, err error) error {
			if err != nil {
				return err
			}

			if info.IsDir() || !strings.HasSuffix(p, ".go") || strings.HasSuffix(p, "_test.go") {
				return nil
			}

			f, err := parser.ParseFile(fset, p, nil, 0)
			if err != nil {
				return err
			}

			rel, _ := filepath.Rel(repo, filepath.Dir(p))

			for _, d := range f.Decls {
				if fd, ok := d.(*ast.FuncDecl); ok {
					if t, _ := recvName(fd); t != "" {
						k := key{filepath.ToSlash(rel), t}
						if have[k] == nil {
							have[k] = map[string]bool{}
						}

						have[k][fd.Name.Name] = true
					}
				}
			}

			return nil
		})
		if err != nil {
			fail("walk %s: %v", root, err)
		}
	}

	all := func(ms []string) []string {
		var l []string

		for k, h := range have {
			ok := true
			for _, m := range ms {
				ok = ok && h[m]
			}

			if ok {
				l = append(l, fmt.Sprintf("(\"%s\", \"%s\")", k.dir, k.typ))
			}
		}

		sort.Strings(l)

		return l
	}

	var b strings.Builder

	b.WriteString("(* GENERATED by harness/c11gen from /repo (spi/storage, component/storage, component/storageutil) -- do not edit *)\n")
	b.WriteString("From Coq Require Import List String.\nImport ListNotations.\nLocal Open Scope string_scope.\n\n")
	fmt.Fprintf(&b, "Definition gen_provider_methods : list string := %s.\n", coqStrs(pm))
	fmt.Fprintf(&b, "Definition gen_store_methods : list string := %s.\n", coqStrs(sm))
	fmt.Fprintf(&b, "Definition gen_iterator_methods : list string := %s.\n\n", coqStrs(im))
	fmt.Fprintf(&b, "(* (package directory, type) of every type that has all Provider methods *)\nDefinition gen_provider_types : list (string * string) := [\n  %s].\n\n",
		strings.Join(all(pm), ";\n  "))
	fmt.Fprintf(&b, "(* ... all Store methods *)\nDefinition gen_store_types : list (string * string) := [\n  %s].\n\n", strings.Join(all(sm), ";\n  "))
	fmt.Fprintf(&b, "(* cachedstore: calls on the main store per wrapper method, in source order *)\nDefinition gen_cached_main_calls : list (string * list string) := %s.\n\n",
		wrapperCalls(filepath.Join(repo, "component/storageutil/cachedstore/cachedstore.go"), "store", "mainStore", sm))
	fmt.Fprintf(&b, "(* batchedstore: calls on the underlying store per wrapper method, own methods inlined *)\nDefinition gen_batched_calls : list (string * list string) := %s.\n",
		wrapperCalls(filepath.Join(repo, "component/storageutil/batchedstore/batchedstore.go"), "store", "underlyingStore", sm))

	if err := os.WriteFile(out, []byte(b.String()), 0o644); err != nil {
		fail("write: %v", err)
	}
}
