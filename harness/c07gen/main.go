// c07gen: translator for C07.  Reads /repo's source (go/ast) and executes the real Proof.JSONLdObject, and
// regenerates coq/gen/Gen_C07.v: the tables that decide which members of a linked-data proof are covered by
// the signature.
//
//	ld/proof/data.go   excludedKeysStr + excludedKeys     -> keys dropped from the proof options (proofValue form)
//	ld/proof/data.go   prepareCanonicalProofOptions        -> the member that must be present ("created")
//	ld/proof/jws.go    prepareJWSProof delete(...) calls   -> keys dropped from the proof options (detached-JWS form)
//	ld/proof/jws.go    securityContext constants           -> the @context forced on the options in the JWS form
//	ld/proof/proof.go  JSONLdObject (EXECUTED on a fully populated proof and on a minimal one)
//	                                                        -> members a typed proof re-emits / always emits
//	dataintegrity/suite/ecdsa2019/ecdsa2019.go proofConfig -> members of the signed Data Integrity proof configuration
//	signature/verifier/verifier.go VerifyObject            -> every proof of the set is verified (no early accept)
package main

import (
	"encoding/base64"
	"encoding/json"
	"flag"
	"fmt"
	"go/ast"
	"go/parser"
	"go/token"
	"os"
	"path/filepath"
	"reflect"
	"sort"
	"strconv"
	"strings"
	"time"

	dimodels "github.com/hyperledger/aries-framework-go/component/models/dataintegrity/models"
	"github.com/hyperledger/aries-framework-go/component/models/ld/processor"
	"github.com/hyperledger/aries-framework-go/component/models/ld/proof"
	"github.com/hyperledger/aries-framework-go/component/models/ld/testutil"
	"github.com/hyperledger/aries-framework-go/component/models/signature/suite/bbsblssignature2020"
	"github.com/hyperledger/aries-framework-go/component/models/signature/suite/ecdsasecp256k1signature2019"
	"github.com/hyperledger/aries-framework-go/component/models/signature/suite/ed25519signature2018"
	"github.com/hyperledger/aries-framework-go/component/models/signature/suite/ed25519signature2020"
	"github.com/hyperledger/aries-framework-go/component/models/signature/suite/jsonwebsignature2020"
	"github.com/hyperledger/aries-framework-go/component/models/verifiable"
	afgotime "github.com/hyperledger/aries-framework-go/component/models/util/time"
)

var fset = token.NewFileSet()

func fail(f string, a ...interface{}) {
	fmt.Fprintf(os.Stderr, "c07gen: "+f+"\n", a...)
	os.Exit(1)
}

func parse(path string) *ast.File {
	f, err := parser.ParseFile(fset, path, nil, 0)
	if err != nil {
		fail("parse %s: %v", path, err)
	}

	return f
}

func funcDecl(f *ast.File, name string) *ast.FuncDecl {
	for _, d := range f.Decls {
		if fd, ok := d.(*ast.FuncDecl); ok && fd.Name.Name == name {
			return fd
		}
	}

	fail("function %s not found", name)

	return nil
}

// consts collects the string constants of the files of a package.
func consts(files ...*ast.File) map[string]string {
	out := map[string]string{}

	for _, f := range files {
		for _, d := range f.Decls {
			gd, ok := d.(*ast.GenDecl)
			if !ok || gd.Tok != token.CONST {
				continue
			}

			for _, s := range gd.Specs {
				vs := s.(*ast.ValueSpec) //nolint:forcetypeassert
				for i, n := range vs.Names {
					if i < len(vs.Values) {
						if bl, ok := vs.Values[i].(*ast.BasicLit); ok && bl.Kind == token.STRING {
							v, _ := strconv.Unquote(bl.Value)
							out[n.Name] = v
						}
					}
				}
			}
		}
	}

	return out
}

func strOf(e ast.Expr, cs map[string]string) string {
	switch x := e.(type) {
	case *ast.BasicLit:
		v, err := strconv.Unquote(x.Value)
		if err != nil {
			fail("bad literal %s", x.Value)
		}

		return v
	case *ast.Ident:
		v, ok := cs[x.Name]
		if !ok {
			fail("constant %s not found", x.Name)
		}

		return v
	case *ast.SelectorExpr:
		return "<" + x.Sel.Name + ">"
	}

	fail("unsupported expression %T", e)

	return ""
}

func varComposite(f *ast.File, name string) *ast.CompositeLit {
	for _, d := range f.Decls {
		gd, ok := d.(*ast.GenDecl)
		if !ok || gd.Tok != token.VAR {
			continue
		}

		for _, s := range gd.Specs {
			vs := s.(*ast.ValueSpec) //nolint:forcetypeassert
			for i, n := range vs.Names {
				if n.Name == name && i < len(vs.Values) {
					if cl, ok := vs.Values[i].(*ast.CompositeLit); ok {
						return cl
					}
				}
			}
		}
	}

	fail("var %s not found", name)

	return nil
}

func coqStr(s string) string { return "\"" + strings.ReplaceAll(s, "\"", "\"\"") + "\"" }

func coqList(ss []string) string {
	q := make([]string, len(ss))
	for i, s := range ss {
		q[i] = coqStr(s)
	}

	return "[" + strings.Join(q, "; ") + "]"
}

func main() {
	repo := flag.String("repo", "/repo", "repository")
	out := flag.String("out", "Gen_C07.v", "output")
	flag.Parse()

	models := filepath.Join(*repo, "component", "models")
	dataF := parse(filepath.Join(models, "ld", "proof", "data.go"))
	jwsF := parse(filepath.Join(models, "ld", "proof", "jws.go"))
	proofF := parse(filepath.Join(models, "ld", "proof", "proof.go"))
	cs := consts(dataF, jwsF, proofF)

	// --- excluded keys: the strings, and the enumeration the lookup ranges over (a key is excluded only if its
	// enum value is in excludedKeys AND its String() is the name)
	strs := varComposite(dataF, "excludedKeysStr")
	enums := varComposite(dataF, "excludedKeys")

	var names []string
	for _, e := range strs.Elts {
		names = append(names, strOf(e, cs))
	}

	// the iota order of the excludedKey constants
	var enumOrder []string

	for _, d := range dataF.Decls {
		gd, ok := d.(*ast.GenDecl)
		if !ok || gd.Tok != token.CONST {
			continue
		}

		isEK := false

		for _, s := range gd.Specs {
			vs := s.(*ast.ValueSpec) //nolint:forcetypeassert
			if id, ok := vs.Type.(*ast.Ident); ok && id.Name == "excludedKey" {
				isEK = true
			}

			if isEK {
				for _, n := range vs.Names {
					enumOrder = append(enumOrder, n.Name)
				}
			}
		}
	}

	var excluded []string

	for _, e := range enums.Elts {
		id, ok := e.(*ast.Ident)
		if !ok {
			fail("excludedKeys: unexpected element")
		}

		idx := -1

		for i, n := range enumOrder {
			if n == id.Name {
				idx = i
			}
		}

		if idx < 0 || idx >= len(names) {
			fail("excludedKeys: %s has no name", id.Name)
		}

		excluded = append(excluded, names[idx])
	}

	// --- the filter in prepareCanonicalProofOptions must be `excludedKeyFromString(key) == 0`
	pcpo := funcDecl(dataF, "prepareCanonicalProofOptions")
	filterOK := false
	var mandatory []string

	ast.Inspect(pcpo, func(n ast.Node) bool {
		if be, ok := n.(*ast.BinaryExpr); ok && be.Op == token.EQL {
			if ce, ok := be.X.(*ast.CallExpr); ok {
				if id, ok := ce.Fun.(*ast.Ident); ok && id.Name == "excludedKeyFromString" {
					if bl, ok := be.Y.(*ast.BasicLit); ok && bl.Value == "0" {
						filterOK = true
					}
				}
			}
		}

		if ie, ok := n.(*ast.IndexExpr); ok {
			if id, ok := ie.X.(*ast.Ident); ok && id.Name == "proofOptions" {
				mandatory = append(mandatory, strOf(ie.Index, cs))
			}
		}

		return true
	})

	if !filterOK {
		fail("prepareCanonicalProofOptions: the excluded-key filter is not `excludedKeyFromString(key) == 0`")
	}

	// the mandatory check must return an error: `if !ok || value == nil { return nil, errors.New(...) }`
	mandOK := false

	for _, st := range pcpo.Body.List {
		if is, ok := st.(*ast.IfStmt); ok {
			if be, ok := is.Cond.(*ast.BinaryExpr); ok && be.Op == token.LOR && len(is.Body.List) == 1 {
				if rs, ok := is.Body.List[0].(*ast.ReturnStmt); ok && len(rs.Results) == 2 {
					if id, ok := rs.Results[0].(*ast.Ident); ok && id.Name == "nil" {
						mandOK = true
					}
				}
			}
		}
	}

	if !mandOK {
		mandatory = nil
	}

	// --- JWS form: delete(proofOptionsCopy, X) calls and the forced contexts
	pjp := funcDecl(jwsF, "prepareJWSProof")

	var jwsDeleted, jwsCtx []string

	ast.Inspect(pjp, func(n ast.Node) bool {
		ce, ok := n.(*ast.CallExpr)
		if ok {
			// a filter through the excluded-key table drops every key of that table here as well
			if id, ok := ce.Fun.(*ast.Ident); ok && id.Name == "excludedKeyFromString" {
				for _, k := range excluded {
					dup := false
					for _, have := range jwsDeleted {
						dup = dup || have == k
					}

					if !dup {
						jwsDeleted = append(jwsDeleted, k)
					}
				}
			}

			if id, ok := ce.Fun.(*ast.Ident); ok && id.Name == "delete" && len(ce.Args) == 2 {
				jwsDeleted = append(jwsDeleted, strOf(ce.Args[1], cs))
			}
		}

		if as, ok := n.(*ast.AssignStmt); ok && len(as.Lhs) == 1 {
			if ie, ok := as.Lhs[0].(*ast.IndexExpr); ok {
				if id, ok := ie.Index.(*ast.Ident); ok && id.Name == "jsonldContext" {
					if cl, ok := as.Rhs[0].(*ast.CompositeLit); ok {
						for _, e := range cl.Elts {
							jwsCtx = append(jwsCtx, strOf(e, cs))
						}
					}
				}
			}
		}

		return true
	})

	// --- executed: JSONLdObject
	tw := afgotime.NewTime(time.Date(2020, 1, 2, 3, 4, 5, 0, time.UTC))
	full := &proof.Proof{
		Type: "T", Created: tw, Creator: "c", VerificationMethod: "v", ProofValue: []byte{1}, JWS: "a..b",
		ProofPurpose: "p", Domain: "d", Nonce: []byte{2}, Challenge: "ch", CapabilityChain: []interface{}{"x"},
	}
	minimal := &proof.Proof{Created: tw}

	keysOf := func(m map[string]interface{}) []string {
		var ks []string
		for k := range m {
			ks = append(ks, k)
		}

		sort.Strings(ks)

		return ks
	}

	emitted := keysOf(full.JSONLdObject())
	always := keysOf(minimal.JSONLdObject())

	// --- Data Integrity ecdsa-2019 proofConfig
	ecF := parse(filepath.Join(models, "dataintegrity", "suite", "ecdsa2019", "ecdsa2019.go"))
	ecs := consts(ecF)
	pc := funcDecl(ecF, "proofConfig")

	type member struct{ key, src string }

	var di []member

	ast.Inspect(pc, func(n ast.Node) bool {
		// map literal entries
		if kv, ok := n.(*ast.KeyValueExpr); ok {
			di = append(di, member{strOf(kv.Key, ecs), exprSrc(kv.Value)})
		}
		// conf["k"] = v assignments
		if as, ok := n.(*ast.AssignStmt); ok && len(as.Lhs) == 1 {
			if ie, ok := as.Lhs[0].(*ast.IndexExpr); ok {
				if _, isMap := ie.X.(*ast.Ident); isMap {
					if _, isLit := ie.Index.(*ast.BasicLit); isLit {
						di = append(di, member{strOf(ie.Index, ecs), exprSrc(as.Rhs[0])})
					}
				}
			}
		}

		return true
	})

	sort.Slice(di, func(i, j int) bool { return di[i].key < di[j].key })

	var diKeys []string
	for _, m := range di {
		diKeys = append(diKeys, m.key)
	}

	// --- VerifyObject: the loop over the proofs returns an error on every failing step and nil only after the loop
	vF := parse(filepath.Join(models, "signature", "verifier", "verifier.go"))
	vo := funcDecl(vF, "VerifyObject")
	allProofs := false

	for i, st := range vo.Body.List {
		if rs, ok := st.(*ast.RangeStmt); ok {
			if id, ok := rs.X.(*ast.Ident); ok && id.Name == "proofs" {
				// no `return nil`, `break` or `continue` inside the loop body
				clean := true

				ast.Inspect(rs.Body, func(n ast.Node) bool {
					switch x := n.(type) {
					case *ast.BranchStmt:
						clean = false
					case *ast.ReturnStmt:
						if len(x.Results) == 1 {
							if id, ok := x.Results[0].(*ast.Ident); ok && id.Name == "nil" {
								clean = false
							}
						}
					}

					return true
				})

				if clean && i == len(vo.Body.List)-2 {
					allProofs = true
				}
			}
		}
	}

	// --- proof types checkEmbeddedProof lets through to the linked-data verifier: the case list of getProofType
	embF := parse(filepath.Join(models, "verifiable", "embedded_proof.go"))
	embCs := consts(embF)

	var supported []string

	gpt := funcDecl(embF, "getProofType")
	if gpt == nil {
		fail("getProofType not found")
	}

	ast.Inspect(gpt.Body, func(n ast.Node) bool {
		cc, ok := n.(*ast.CaseClause)
		if !ok || len(cc.List) == 0 {
			return true
		}

		// the clause that returns the type without error
		okClause := false

		for _, st := range cc.Body {
			if r, isRet := st.(*ast.ReturnStmt); isRet && len(r.Results) == 2 {
				if id, isID := r.Results[1].(*ast.Ident); isID && id.Name == "nil" {
					okClause = true
				}
			}
		}

		if okClause {
			for _, e := range cc.List {
				supported = append(supported, strOf(e, embCs))
			}
		}

		return true
	})

	if len(supported) == 0 {
		fail("no supported proof types found in getProofType")
	}

	// --- the string members a Data Integrity proof object is decoded into (models.Proof, by reflection)
	var diProofMembers []string

	pt := reflect.TypeOf(dimodels.Proof{})
	for i := 0; i < pt.NumField(); i++ {
		f := pt.Field(i)
		if f.Type.Kind() != reflect.String {
			fail("models.Proof.%s is not a string", f.Name)
		}

		diProofMembers = append(diProofMembers, strings.Split(f.Tag.Get("json"), ",")[0])
	}

	// --- the JWT credential decoder, EXECUTED (verifiable.JWTVCToJSON = decodeCredJWS without signature check) on a
	// systematic table of payloads: every subset of the registered claims x issuer shape x layout
	probes, probeFmt := jwtProbes()

	// --- which proof options reach the bytes that are signed, per stock suite and signature representation: EXECUTED
	// (proof.CreateVerifyData with the real suite, the real canonicaliser and the suite's published context)
	coverage := suiteCoverage(supported)

	var b strings.Builder

	b.WriteString("(* GENERATED by harness/c07gen from /repo (component/models/ld/proof/{data,jws,proof}.go,\n")
	b.WriteString("   dataintegrity/suite/ecdsa2019/ecdsa2019.go, signature/verifier/verifier.go) - do not edit. *)\n")
	b.WriteString("From Coq Require Import List String Bool ZArith.\nImport ListNotations.\nFrom VF Require Import common.Json.\nOpen Scope string_scope.\n\n")
	b.WriteString("(* keys removed from the proof options before canonicalisation, proofValue representation *)\n")
	b.WriteString("Definition excluded_keys : list string := " + coqList(excluded) + ".\n")
	b.WriteString("(* members that must be present (non-null) in the proof options, else verification fails *)\n")
	b.WriteString("Definition mandatory_keys : list string := " + coqList(mandatory) + ".\n")
	b.WriteString("(* keys removed from the proof options, detached-JWS representation *)\n")
	b.WriteString("Definition jws_deleted_keys : list string := " + coqList(jwsDeleted) + ".\n")
	b.WriteString("(* the @context forced on the proof options, detached-JWS representation *)\n")
	b.WriteString("Definition jws_contexts : list string := " + coqList(jwsCtx) + ".\n")
	b.WriteString("(* members Proof.JSONLdObject emits for a fully populated proof (executed) *)\n")
	b.WriteString("Definition emitted_members : list string := " + coqList(emitted) + ".\n")
	b.WriteString("(* members Proof.JSONLdObject emits for a proof with only `created` set (executed) *)\n")
	b.WriteString("Definition always_members : list string := " + coqList(always) + ".\n")
	b.WriteString("(* members of the signed proof configuration of Data Integrity ecdsa-2019 (proofConfig) *)\n")
	b.WriteString("Definition di_config_members : list string := " + coqList(diKeys) + ".\n")
	b.WriteString("(* VerifyObject: every proof of the set goes through every step; success only after the loop *)\n")
	b.WriteString(fmt.Sprintf("Definition verify_object_checks_all_proofs : bool := %v.\n", allProofs))

	b.WriteString("(* proof types verifiable.getProofType accepts (go/ast over embedded_proof.go) *)\n")
	b.WriteString("Definition supported_proof_types : list string := " + coqList(supported) + ".\n")
	b.WriteString("(* the members of dataintegrity models.Proof, all strings (reflection) *)\n")
	b.WriteString("Definition di_proof_members : list string := " + coqList(diProofMembers) + ".\n")
	b.WriteString("(* proof.CreateVerifyData executed per stock suite (its published context) and representation (true = detached JWS):\n")
	b.WriteString("   does a change of the option change the bytes to be signed *)\n")
	b.WriteString("Definition suite_option_coverage : list (string * bool * list (string * bool)) := [\n  " + strings.Join(coverage, ";\n  ") + "].\n")
	b.WriteString("(* verifiable.JWTVCToJSON executed on a table of payloads: (payload, decoded credential or None) *)\n")
	b.WriteString("Definition jwt_probe_fmt : list (Z * string) := [" + strings.Join(probeFmt, "; ") + "].\n")
	b.WriteString("Definition jwt_probes : list (list (string * json) * option (list (string * json))) := [\n  " + strings.Join(probes, ";\n  ") + "].\n")

	if err := os.WriteFile(*out, []byte(b.String()), 0o644); err != nil { //nolint:gosec
		fail("%v", err)
	}
}

func exprSrc(e ast.Expr) string {
	switch x := e.(type) {
	case *ast.SelectorExpr:
		return exprSrc(x.X) + "." + x.Sel.Name
	case *ast.Ident:
		return x.Name
	case *ast.CallExpr:
		return exprSrc(x.Fun) + "()"
	}

	return "?"
}

// ---------- JWT decoder probes ----------

func coqJSON(v interface{}) string {
	switch x := v.(type) {
	case nil:
		return "JNull"
	case bool:
		if x {
			return "JBool true"
		}

		return "JBool false"
	case json.Number:
		return "JNum (" + x.String() + ")%Z"
	case string:
		return "JStr " + coqStr(x)
	case []interface{}:
		var es []string
		for _, e := range x {
			es = append(es, coqJSON(e))
		}

		return "JArr [" + strings.Join(es, "; ") + "]"
	case map[string]interface{}:
		return "JObj " + coqMembers(x)
	}

	fail("coqJSON: unsupported %T", v)

	return ""
}

func coqMembers(m map[string]interface{}) string {
	ks := make([]string, 0, len(m))
	for k := range m {
		ks = append(ks, k)
	}

	sort.Strings(ks)

	var es []string
	for _, k := range ks {
		es = append(es, "("+coqStr(k)+", "+coqJSON(m[k])+")")
	}

	return "[" + strings.Join(es, "; ") + "]"
}

func decodeNum(b []byte) map[string]interface{} {
	d := json.NewDecoder(strings.NewReader(string(b)))
	d.UseNumber()

	var m map[string]interface{}
	if err := d.Decode(&m); err != nil {
		fail("probe JSON: %v", err)
	}

	return m
}

func jwtProbes() ([]string, []string) {
	times := map[string]int64{"nbf": 1000000000, "iat": 1100000000, "exp": 2000000000}

	var fmtTab []string
	for _, k := range []string{"nbf", "iat", "exp"} {
		fmtTab = append(fmtTab, fmt.Sprintf("((%d)%%Z, %s)", times[k], coqStr(time.Unix(times[k], 0).UTC().Format(time.RFC3339))))
	}

	hdr := base64.RawURLEncoding.EncodeToString([]byte(`{"alg":"EdDSA","kid":"did:example:i#k"}`))

	var out []string

	claimNames := []string{"iss", "jti", "nbf", "iat", "exp"}

	for mask := 0; mask < 1<<len(claimNames); mask++ {
		for _, issuer := range []string{"absent", "string", "object", "number"} {
			for _, layout := range []string{"vc", "v5", "vc-empty", "vc-and-members"} {
				vc := map[string]interface{}{"@context": "c", "id": "urn:inner", "issuanceDate": "D0", "credentialSubject": map[string]interface{}{"id": "did:s"}}

				switch issuer {
				case "string":
					vc["issuer"] = "did:inner"
				case "object":
					vc["issuer"] = map[string]interface{}{"id": "did:inner", "name": "N"}
				case "number":
					vc["issuer"] = 7
				}

				if mask&1 == 0 && layout != "vc" {
					continue // the other layouts only with every second claim pattern (table size)
				}

				p := map[string]interface{}{}

				for i, c := range claimNames {
					if mask&(1<<i) == 0 {
						continue
					}

					switch c {
					case "iss":
						p["iss"] = "did:outer"
					case "jti":
						p["jti"] = "urn:outer"
					default:
						p[c] = times[c]
					}
				}

				switch layout {
				case "vc":
					p["vc"] = vc
				case "v5":
					for k, v := range vc {
						p[k] = v
					}
				case "vc-empty":
					p["vc"] = map[string]interface{}{}
					p["a1"] = "x"
				case "vc-and-members":
					p["vc"] = vc
					p["issuer"] = "did:payload-member"
					p["a1"] = "x"
				}

				pb, err := json.Marshal(p)
				if err != nil {
					fail("%v", err)
				}

				token := hdr + "." + base64.RawURLEncoding.EncodeToString(pb) + ".c2ln"

				res := "None"

				if got, err := verifiable.JWTVCToJSON([]byte(token)); err == nil {
					res = "(Some " + coqMembers(decodeNum(got)) + ")"
				}

				out = append(out, "("+coqMembers(decodeNum(pb))+", "+res+")")
			}
		}
	}

	return out, fmtTab
}

// ---------- executed coverage of the proof options ----------

type ldSuite interface {
	GetCanonicalDocument(doc map[string]interface{}, opts ...processor.Opts) ([]byte, error)
	GetDigest(doc []byte) []byte
	CompactProof() bool
}

func suiteCoverage(supported []string) []string {
	loader, err := testutil.DocumentLoader()
	if err != nil {
		fail("document loader: %v", err)
	}

	const vcCtx = "https://www.w3.org/2018/credentials/v1"

	stock := map[string]struct {
		s   ldSuite
		ctx string
	}{
		"Ed25519Signature2018":        {ed25519signature2018.New(), ""}, // defined (protected) by credentials/v1 itself
		"Ed25519Signature2020":        {ed25519signature2020.New(), "https://w3id.org/security/suites/ed25519-2020/v1"},
		"JsonWebSignature2020":        {jsonwebsignature2020.New(), "https://w3id.org/security/suites/jws-2020/v1"},
		"EcdsaSecp256k1Signature2019": {ecdsasecp256k1signature2019.New(), ""},
		"BbsBlsSignature2020":         {bbsblssignature2020.New(), "https://w3id.org/security/bbs/v1"},
	}

	created := time.Date(2021, 2, 3, 4, 5, 6, 0, time.UTC)
	created2 := time.Date(2021, 2, 3, 4, 5, 7, 0, time.UTC)

	base := func(typ string, jws bool) *proof.Proof {
		p := &proof.Proof{Type: typ, Created: afgotime.NewTime(created), VerificationMethod: "did:example:i#k1",
			ProofPurpose: "assertionMethod", Domain: "shop.example", Challenge: "c-1", Nonce: []byte("nonce-1"),
			SignatureRepresentation: proof.SignatureProofValue, ProofValue: []byte("sig")}
		if jws {
			p.SignatureRepresentation = proof.SignatureJWS
			p.ProofValue = nil
			p.JWS = "eyJhbGciOiJFZERTQSIsImI2NCI6ZmFsc2UsImNyaXQiOlsiYjY0Il19..c2ln"
		}

		return p
	}

	edits := []struct {
		name string
		f    func(p *proof.Proof)
	}{
		{"created", func(p *proof.Proof) { p.Created = afgotime.NewTime(created2) }},
		{"verificationMethod", func(p *proof.Proof) { p.VerificationMethod = "did:example:i#k2" }},
		{"proofPurpose", func(p *proof.Proof) { p.ProofPurpose = "authentication" }},
		{"domain", func(p *proof.Proof) { p.Domain = "evil.example" }},
		{"challenge", func(p *proof.Proof) { p.Challenge = "c-2" }},
		{"nonce", func(p *proof.Proof) { p.Nonce = []byte("nonce-2") }},
		{"domain-removed", func(p *proof.Proof) { p.Domain = "" }},
		{"challenge-removed", func(p *proof.Proof) { p.Challenge = "" }},
	}

	var out []string

	for _, typ := range supported {
		st, ok := stock[typ]
		if !ok {
			continue // derived proofs (BbsBlsSignatureProof2020) are not made by signing
		}

		for _, jws := range []bool{false, true} {
			doc := func() map[string]interface{} {
				ctx := []interface{}{vcCtx}
				if st.ctx != "" {
					ctx = append(ctx, st.ctx)
				}

				return map[string]interface{}{
					"@context": ctx, "id": "urn:uuid:1", "type": []interface{}{"VerifiableCredential"},
					"issuer": "did:example:i", "issuanceDate": "2020-01-01T00:00:00Z",
					"credentialSubject": map[string]interface{}{"id": "did:example:s"},
				}
			}

			ref, err := proof.CreateVerifyData(st.s, doc(), base(typ, jws), processor.WithDocumentLoader(loader))
			if err != nil {
				fail("CreateVerifyData %s: %v", typ, err)
			}

			var cols []string

			for _, e := range edits {
				p := base(typ, jws)
				e.f(p)

				got, err := proof.CreateVerifyData(st.s, doc(), p, processor.WithDocumentLoader(loader))
				if err != nil {
					fail("CreateVerifyData %s %s: %v", typ, e.name, err)
				}

				cols = append(cols, fmt.Sprintf("(%s, %v)", coqStr(e.name), string(got) != string(ref)))
			}

			out = append(out, fmt.Sprintf("(%s, %v, [%s])", coqStr(typ), jws, strings.Join(cols, "; ")))
		}
	}

	return out
}
