package main

import (
	"fmt"

	"verifharness/hx"
)

// ---- random JSON values for custom members ----

var customNames = []string{"name", "alumniOf", "x", "y1", "holder", "properties", "verifiableCredential", "degree", "n"}

var bigNumbers = []string{"9007199254740993", "12345678901234567890", "-9007199254740995", "123456789012345678", "36028797018963969"}

// feature flags of a generated document (at most one defect-prone feature per document)
type feat struct {
	big, jwt, caseVar, nulls, confusion bool
}

func randLeaf(r *hx.Rng, f *feat) *J {
	switch r.Intn(9) {
	case 0:
		return null()
	case 1:
		return boolean(r.Bool())
	case 2:
		return num(int64(r.Intn(2000)) - 1000)
	case 3:
		// exactly representable large numbers
		return bignum([]string{"9007199254740992", "-9007199254740992", "9007199254740991", "4503599627370496", "1099511627776"}[r.Intn(5)])
	case 4:
		return str("")
	case 5:
		if f.big {
			return bignum(bigNumbers[r.Intn(len(bigNumbers))])
		}

		return num(int64(r.Intn(10)))
	default:
		return str([]string{"a", "did:ex:7", "v w", "T", "#frag", "1"}[r.Intn(6)])
	}
}

func randValue(r *hx.Rng, depth int, f *feat) *J {
	if depth <= 0 || r.Intn(3) == 0 {
		return randLeaf(r, f)
	}

	if r.Bool() {
		n := r.Intn(4)
		a := arr()

		for i := 0; i < n; i++ {
			a.A = append(a.A, randValue(r, depth-1, f))
		}

		return a
	}

	return obj(randMembers(r, depth-1, r.Intn(4), f)...)
}

func randMembers(r *hx.Rng, depth, n int, f *feat) []KV {
	var out []KV

	used := map[string]bool{}

	for i := 0; i < n; i++ {
		k := customNames[r.Intn(len(customNames))]
		if used[k] {
			continue
		}

		used[k] = true
		out = append(out, kv(k, randValue(r, depth, f)))
	}

	return out
}

func shuffle(r *hx.Rng, o []KV) {
	for i := len(o) - 1; i > 0; i-- {
		k := r.Intn(i + 1)
		o[i], o[k] = o[k], o[i]
	}
}

// an object with optional id / type string members and custom members
func randTyped(r *hx.Rng, f *feat, withType bool) *J {
	o := obj()

	switch r.Intn(6) {
	case 0:
	case 1:
		o.O = append(o.O, kv("id", str("")))
	default:
		o.O = append(o.O, kv("id", str(fmt.Sprintf("urn:t:%d", r.Intn(5)))))
	}

	if withType && r.Intn(4) > 0 {
		o.O = append(o.O, kv("type", str([]string{"T1", "JsonSchemaValidator2018", ""}[r.Intn(3)])))
	}

	o.O = append(o.O, randMembers(r, 2, r.Intn(3), f)...)

	if f.caseVar && r.Intn(3) == 0 {
		o.O = append(o.O, kv([]string{"ID", "Id", "Type", "TYPE"}[r.Intn(4)], str("shadow")))
	}

	if f.nulls && r.Intn(3) == 0 {
		o.set("id", null())
	}

	shuffle(r, o.O)

	return o
}

func oneOrMany(r *hx.Rng, mk func() *J) *J {
	switch r.Intn(5) {
	case 0:
		return mk()
	case 1:
		return arr(mk())
	case 2:
		return arr(mk(), mk())
	case 3:
		return arr()
	default:
		return arr(mk(), mk(), mk())
	}
}

var dates = []string{
	"2020-01-01T00:00:00Z", "2020-01-01T00:00:00.000Z", "2021-06-15T12:30:45+01:00", "2019-12-31T23:59:59-05:00",
	"2022-02-02T02:02:02", "2030-01-01T00:00:00.5Z", "2010-10-10T10:10:10.123456Z",
}

const baseCtx = "https://www.w3.org/2018/credentials/v1"

func randContext(r *hx.Rng, f *feat, first string) *J {
	co := func() *J {
		return obj(append([]KV{kv("@vocab", str("urn:v#"))}, randMembers(r, 1, r.Intn(2), f)...)...)
	}

	switch r.Intn(8) {
	case 0:
		return str(first)
	case 1:
		return arr(str(first))
	case 2:
		return arr(str(first), str("urn:ctx:2"))
	case 3:
		return arr(str(first), co())
	case 4:
		return arr(str(first), co(), str("urn:ctx:3"))
	case 5:
		return arr(str(first), str("urn:ctx:2"), co(), co())
	case 6:
		return arr(co())
	default:
		return arr()
	}
}

// randVC generates a credential document (validation off: any shape the parser may meet).
func randVC(r *hx.Rng) (*J, feat) {
	var f feat

	switch r.Intn(20) {
	case 0:
		f.big = true
	case 1:
		f.jwt = true
	case 2:
		f.caseVar = true
	case 3, 4:
		f.nulls = true
	case 5:
		f.confusion = true
	}

	d := obj()
	d.O = append(d.O, kv("@context", randContext(r, &f, []string{baseCtx, "urn:c1"}[r.Intn(2)])))

	switch r.Intn(5) {
	case 0:
	case 1:
		d.O = append(d.O, kv("id", str("")))
	default:
		d.O = append(d.O, kv("id", str("urn:vc:1")))
	}

	d.O = append(d.O, kv("type", []*J{str("VerifiableCredential"), arr(str("VerifiableCredential")),
		arr(str("VerifiableCredential"), str("T2")), arr(), str("T")}[r.Intn(5)]))

	subj := func() *J {
		o := obj()
		if r.Intn(4) > 0 {
			o.O = append(o.O, kv("id", str([]string{"did:ex:s1", "did:ex:s2", ""}[r.Intn(3)])))
		}

		o.O = append(o.O, randMembers(r, 3, r.Intn(4), &f)...)

		if f.caseVar && r.Intn(2) == 0 {
			o.O = append(o.O, kv([]string{"ID", "Id", "iD"}[r.Intn(3)], str("did:ex:shadow")))
		}

		shuffle(r, o.O)

		return o
	}

	switch r.Intn(8) {
	case 0:
	case 1:
		d.O = append(d.O, kv("credentialSubject", str("did:ex:s1")))
	case 2:
		d.O = append(d.O, kv("credentialSubject", arr(subj(), subj())))
	case 3:
		d.O = append(d.O, kv("credentialSubject", arr(subj())))
	case 4:
		d.O = append(d.O, kv("credentialSubject", []*J{arr(), obj(), arr(str("did:ex:s3")), arr(subj(), str("did:ex:s3"))}[r.Intn(4)]))
	default:
		d.O = append(d.O, kv("credentialSubject", subj()))
	}

	switch r.Intn(7) {
	case 0:
	case 1:
		d.O = append(d.O, kv("issuer", str("")))
	case 2, 3:
		d.O = append(d.O, kv("issuer", str("did:ex:issuer")))
	case 4:
		d.O = append(d.O, kv("issuer", obj(kv("id", str("did:ex:issuer")))))
	default:
		o := obj(append([]KV{kv("id", str("did:ex:issuer"))}, randMembers(r, 2, 1+r.Intn(3), &f)...)...)
		if f.caseVar && r.Intn(2) == 0 {
			o.O = append(o.O, kv("Id", str("did:ex:shadow")))
		}

		shuffle(r, o.O)
		d.O = append(d.O, kv("issuer", o))
	}

	if r.Intn(4) > 0 {
		d.O = append(d.O, kv("issuanceDate", str(dates[r.Intn(len(dates))])))
	}

	if r.Intn(3) == 0 {
		d.O = append(d.O, kv("expirationDate", str(dates[r.Intn(len(dates))])))
	}

	if r.Intn(3) == 0 {
		d.O = append(d.O, kv("proof", oneOrMany(r, func() *J {
			return obj(append([]KV{kv("type", str("Ed25519Signature2018")), kv("created", str(dates[0]))}, randMembers(r, 2, r.Intn(3), &f)...)...)
		})))
	}

	if r.Intn(3) == 0 {
		d.O = append(d.O, kv("credentialStatus", []*J{randTyped(r, &f, true), randTyped(r, &f, true), obj()}[r.Intn(3)]))
	}

	if r.Intn(3) == 0 {
		// credentialSchema elements are re-marshalled from a map before they are decoded (member order = sorted):
		// no case variants here, the model decodes in document order
		nf := f
		nf.caseVar = false
		d.O = append(d.O, kv("credentialSchema", oneOrMany(r, func() *J { return randTyped(r, &nf, true) })))
	}

	if r.Intn(3) == 0 {
		d.O = append(d.O, kv("evidence", randValue(r, 3, &f)))
	}

	if r.Intn(3) == 0 {
		d.O = append(d.O, kv("termsOfUse", oneOrMany(r, func() *J { return randTyped(r, &f, true) })))
	}

	if r.Intn(3) == 0 {
		d.O = append(d.O, kv("refreshService", oneOrMany(r, func() *J { return randTyped(r, &f, true) })))
	}

	if r.Intn(6) == 0 {
		d.O = append(d.O, kv("_sd_alg", str([]string{"sha-256", ""}[r.Intn(2)])))
	}

	if f.jwt {
		d.O = append(d.O, kv("jwt", str([]string{"abc", "not-a-jws", "x y"}[r.Intn(3)])))
	} else if r.Intn(25) == 0 {
		d.O = append(d.O, kv("jwt", str("")))
	}

	for _, m := range randMembers(r, 3, r.Intn(4), &f) {
		if d.get(m.K) == nil {
			d.O = append(d.O, m)
		}
	}

	if f.caseVar {
		k := []string{"ID", "Issuer", "Type", "Evidence", "JWT", "CredentialSubject", "Proof", "credentialstatus", "@Context", "IssuanceDate"}[r.Intn(10)]

		var v *J

		switch k {
		case "ID":
			v = str("urn:vc:shadow")
		case "Issuer":
			v = str("did:ex:shadow")
		case "Type":
			v = arr(str("VerifiableCredential"), str("Shadow"))
		case "JWT":
			v = str("")
		case "CredentialSubject":
			v = obj(kv("id", str("did:ex:shadow")))
		case "Proof":
			v = obj(kv("type", str("Shadow")))
		case "credentialstatus":
			// decoded into the *TypedID the exact-named member already filled (the two objects would be merged field
			// by field): the variant stands alone
			d.del("credentialStatus")
			v = obj(kv("id", str("urn:shadow")))
		case "@Context":
			v = arr(str("urn:shadow"))
		case "IssuanceDate":
			v = str(dates[1])
		default:
			v = randValue(r, 1, &f)
		}

		d.O = append(d.O, kv(k, v))
	}

	if f.nulls {
		ks := []string{"id", "issuer", "credentialSubject", "proof", "credentialStatus", "credentialSchema", "evidence", "termsOfUse", "refreshService", "issuanceDate", "expirationDate", "_sd_alg", "jwt"}
		for i := 0; i < 1+r.Intn(3); i++ {
			d.set(ks[r.Intn(len(ks))], null())
		}

		if r.Intn(3) == 0 {
			d.set("termsOfUse", arr(null(), randTyped(r, &f, true)))
		}

		if r.Intn(3) == 0 {
			d.set("proof", arr(null()))
		}

		if r.Intn(3) == 0 {
			d.set("credentialSubject", arr(null(), obj(kv("id", null()), kv("x", num(1)))))
		}
	}

	if f.confusion {
		wrong := []*J{num(5), boolean(true), str("str"), arr(num(1)), obj(kv("id", num(7))), arr(str("s")), obj(kv("name", str("n")))}
		ks := []string{"id", "type", "@context", "issuer", "credentialSubject", "proof", "credentialStatus", "credentialSchema", "termsOfUse", "refreshService", "issuanceDate", "_sd_alg", "jwt"}
		k := ks[r.Intn(len(ks))]
		w := wrong[r.Intn(len(wrong))]

		if k == "issuanceDate" && w.K == jStr {
			w = num(5) // an unparsable date string is the time package's business
		}

		if k == "jwt" && w.K == jStr {
			w = num(1)
		}

		d.set(k, w)
	}

	shuffle(r, d.O)

	return d, f
}

// randValidVC generates a credential that passes the default JSON schema and JSON-LD validation.
func randValidVC(r *hx.Rng) *J {
	f := feat{}
	d := obj()

	ctx := arr(str(baseCtx))
	if r.Bool() {
		ctx.A = append(ctx.A, obj(kv("@vocab", str("urn:v#"))))
	} else if r.Bool() {
		ctx = str(baseCtx)
	}

	d.O = append(d.O, kv("@context", ctx))

	if r.Bool() {
		d.O = append(d.O, kv("id", str("urn:vc:1")))
	}

	d.O = append(d.O, kv("type", []*J{str("VerifiableCredential"), arr(str("VerifiableCredential")), arr(str("VerifiableCredential"), str("T2"))}[r.Intn(3)]))

	subj := func() *J {
		o := obj(kv("id", str("did:ex:s1")))
		o.O = append(o.O, randMembers(r, 2, r.Intn(3), &f)...)
		shuffle(r, o.O)

		return o
	}

	switch r.Intn(4) {
	case 0:
		d.O = append(d.O, kv("credentialSubject", str("did:ex:s1")))
	case 1:
		d.O = append(d.O, kv("credentialSubject", arr(subj(), subj())))
	case 2:
		d.O = append(d.O, kv("credentialSubject", arr(subj())))
	default:
		d.O = append(d.O, kv("credentialSubject", subj()))
	}

	if r.Bool() {
		d.O = append(d.O, kv("issuer", str("did:ex:issuer")))
	} else {
		d.O = append(d.O, kv("issuer", obj(append([]KV{kv("id", str("did:ex:issuer"))}, randMembers(r, 1, r.Intn(3), &f)...)...)))
	}

	d.O = append(d.O, kv("issuanceDate", str(dates[r.Intn(2)])))

	if r.Bool() {
		d.O = append(d.O, kv("expirationDate", str(dates[0])))
	}

	if r.Bool() {
		d.O = append(d.O, kv("credentialStatus", obj(kv("id", str("urn:status:1")), kv("type", str("CredentialStatusList2017")))))
	}

	if r.Bool() {
		mk := func() *J {
			return obj(kv("id", str("urn:tou:1")), kv("type", str("IssuerPolicy")), kv("profile", str("urn:p")))
		}
		d.O = append(d.O, kv("termsOfUse", []*J{mk(), arr(mk()), arr(mk(), mk())}[r.Intn(3)]))
	}

	for _, m := range randMembers(r, 2, r.Intn(3), &f) {
		if d.get(m.K) == nil && m.K != "holder" && m.K != "verifiableCredential" {
			d.O = append(d.O, m)
		}
	}

	shuffle(r, d.O)

	return d
}

// randVP generates a presentation that passes the base presentation schema.
func randVP(r *hx.Rng) (*J, feat) {
	var f feat

	switch r.Intn(20) {
	case 0:
		f.big = true
	case 1:
		f.jwt = true
	case 2:
		f.caseVar = true
	}

	d := obj()
	d.O = append(d.O, kv("@context", []*J{str(baseCtx), arr(str(baseCtx)), arr(str(baseCtx), str("urn:ctx:2")),
		arr(str(baseCtx), obj(kv("@vocab", str("urn:v#")))), arr(str(baseCtx), obj(kv("k", str("urn:k"))), str("urn:ctx:3"))}[r.Intn(5)]))
	d.O = append(d.O, kv("type", []*J{str("VerifiablePresentation"), arr(str("VerifiablePresentation")), arr(str("VerifiablePresentation"), str("P2"))}[r.Intn(3)]))

	if r.Intn(3) > 0 {
		d.O = append(d.O, kv("id", str([]string{"urn:vp:1", ""}[r.Intn(2)])))
	}

	if r.Intn(3) > 0 {
		d.O = append(d.O, kv("holder", str("did:ex:holder")))
	}

	cred := func() *J {
		// embedded credentials are kept as maps: only shape matters
		for {
			c, _ := randVC(r.Fork(uint64(r.Intn(1 << 30))))
			c.del("jwt")

			if f.big || !c.hasInexact() {
				return c
			}
		}
	}

	switch r.Intn(6) {
	case 0:
	case 1:
		d.O = append(d.O, kv("verifiableCredential", arr()))
	case 2:
		d.O = append(d.O, kv("verifiableCredential", cred()))
	case 3:
		d.O = append(d.O, kv("verifiableCredential", arr(cred())))
	default:
		d.O = append(d.O, kv("verifiableCredential", arr(cred(), obj(kv("x", randValue(r, 2, &f))))))
	}

	if r.Intn(2) == 0 {
		d.O = append(d.O, kv("proof", oneOrMany(r, func() *J {
			return obj(append([]KV{kv("type", str("Ed25519Signature2018"))}, randMembers(r, 2, r.Intn(3), &f)...)...)
		})))
	}

	for _, m := range randMembers(r, 3, r.Intn(4), &f) {
		if d.get(m.K) == nil && m.K != "holder" && m.K != "verifiableCredential" {
			d.O = append(d.O, m)
		}
	}

	if f.jwt {
		d.O = append(d.O, kv("jwt", str("abc")))
	}

	if f.caseVar {
		k := []string{"ID", "Holder", "Type", "Proof"}[r.Intn(4)]
		v := str("did:ex:shadow")

		if k == "Type" {
			v = arr(str("VerifiablePresentation"), str("Shadow"))
		}

		if k == "Proof" {
			v = obj(kv("type", str("Shadow")))
		}

		d.O = append(d.O, kv(k, v))
	}

	shuffle(r, d.O)

	return d, f
}
