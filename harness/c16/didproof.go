package main

// wave 5: created / updated / proof of DID documents, RFC 3339 time texts, EC JWK coordinates.

import (
	"bytes"
	"encoding/base64"
	"encoding/json"
	"fmt"
	"strings"
	"time"

	"github.com/btcsuite/btcutil/base58"

	"verifharness/hx"
)

// a zero offset is read as the local zone when the local zone has that offset: fix the local zone so that the
// spelling written back does not depend on the machine (the model states: time.Local = UTC)
func init() { time.Local = time.UTC }

var timeDates = []string{"2020-02-29", "2021-03-01", "1999-12-31", "2000-01-01", "0001-01-01", "9999-12-31", "2024-02-29", "2023-11-30"}

// randTimeText: an RFC 3339 text; ok=false: a text the parser must refuse (calendar, ranges, spelling).
func randTimeText(r *hx.Rng) (string, bool) {
	if r.Intn(12) == 0 {
		bad := []string{"2021-02-29T10:00:00Z", "2021-13-01T10:00:00Z", "2021-04-31T10:00:00Z", "2021-03-01T24:00:00Z",
			"2021-03-01T10:60:00Z", "2021-03-01T10:00:60Z", "2021-03-01T10:00:00", "2021-03-01 10:00:00Z", "2021-03-01T10:00:00.Z",
			"2021-03-01T10:00:00+25:00", "2021-03-01T10:00:00+01:60", "2021-03-01T10:00:00z", "2021-03-01T10:00:00+0100", "1900-02-29T00:00:00Z",
			"2021-00-10T10:00:00Z", "2021-01-00T10:00:00Z", "", "2021-03-01T10:00:00ZZ", "2021-03-01T10:00:00+01:00x"}

		return bad[r.Intn(len(bad))], false
	}

	s := timeDates[r.Intn(len(timeDates))] + fmt.Sprintf("T%02d:%02d:%02d", r.Intn(24), r.Intn(60), r.Intn(60))

	switch r.Intn(6) {
	case 0, 1: // no fraction
	case 2:
		s += "." + []string{"0", "000", "10", "120000000", "000000000", "5", "500"}[r.Intn(7)]
	case 3: // up to nine digits
		n := 1 + r.Intn(9)
		f := ""

		for i := 0; i < n; i++ {
			f += fmt.Sprint(r.Intn(10))
		}

		s += "." + f
	case 4: // more than nanoseconds: cut
		s += "." + fmt.Sprintf("%09d", r.Intn(1000000000)) + fmt.Sprint(1+r.Intn(9)) + fmt.Sprint(r.Intn(10))
	default:
		s += ".123456789"
	}

	switch r.Intn(6) {
	case 0, 1, 2:
		s += "Z"
	case 3:
		s += []string{"+00:00", "-00:00"}[r.Intn(2)]
	default:
		s += fmt.Sprintf("%s%02d:%02d", []string{"+", "-"}[r.Intn(2)], r.Intn(15), []int{0, 30, 45, 59, 1}[r.Intn(5)])
	}

	// year 0000 / 9999 with an offset stays inside the year range of the spelling itself: fine for Go
	return s, true
}

// runTime: one time text through *time.Time in a struct (encoding/json) and through time.Parse(RFC3339).
func runTime(kind, text string) {
	rec := &hx.Record{Kind: kind, Case: caseDesc{Kind: "time", Note: text}, Oracle: "ok", Dist: []string{"time"}}

	var w struct {
		T *time.Time `json:"t,omitempty"`
	}

	in, _ := json.Marshal(map[string]string{"t": text})
	out := ""
	err := json.Unmarshal(in, &w)

	if err == nil && w.T != nil {
		b, e := json.Marshal(w)
		if e != nil {
			err = e
		} else {
			var m map[string]string

			_ = json.Unmarshal(b, &m)
			out = m["t"]
		}
	}

	if err != nil {
		rec.Trivial, rec.Class = true, "time:refused"
		rec.Coq = fmt.Sprintf("CTM %s None", hx.CoqString(text))
		rec.Observed = map[string]string{"error": err.Error()}

		// the lenient parser of populateProofs must not be more lenient on the generated grammar
		if _, e := time.Parse(time.RFC3339, text); e == nil {
			rec.Coq = ""
			rec.Class = "time:refused-by-json-only"
		}

		tr.Put(rec)

		return
	}

	rec.Coq = fmt.Sprintf("CTM %s (Some %s)", hx.CoqString(text), hx.CoqString(out))
	rec.Observed = map[string]string{"out": out}
	rec.Class = fmt.Sprintf("time:frac=%v:zone=%v:changed=%v", strings.Contains(text, "."), text[len(text)-1:] != "Z", out != text)

	// direct oracle: the same instant and the same offset; stable under a second round
	t1, e1 := time.Parse(time.RFC3339Nano, text)
	t2, e2 := time.Parse(time.RFC3339Nano, out)

	_, o1 := t1.Zone()
	_, o2 := t2.Zone()

	switch {
	case e1 != nil || e2 != nil:
		rec.Oracle, rec.Sig, rec.Detail = "fail", "time:output-not-parseable", out
	case t1.Truncate(time.Nanosecond).UnixNano() != t2.UnixNano() && t1.Year() > 1700 && t1.Year() < 2200:
		rec.Oracle, rec.Sig, rec.Detail = "fail", "time:other-instant", text+" -> "+out
	case !t1.Equal(t2) && !moreThanNanos(text):
		rec.Oracle, rec.Sig, rec.Detail = "fail", "time:other-instant", text+" -> "+out
	case o1 != o2:
		rec.Oracle, rec.Sig, rec.Detail = "fail", "time:other-offset", text+" -> "+out
	}

	if pt, e := time.Parse(time.RFC3339, text); e != nil || !pt.Equal(*w.T) {
		rec.Oracle, rec.Sig, rec.Detail = "fail", "time:parse-and-json-disagree", text
	}

	tr.Put(rec)
}

func moreThanNanos(text string) bool {
	i := strings.Index(text, ".")
	if i < 0 {
		return false
	}

	n := 0

	for _, c := range text[i+1:] {
		if c < '0' || c > '9' {
			break
		}

		n++
	}

	return n > 9
}

func genTimes(r *hx.Rng, scale int) {
	for i := 0; i < 60*scale; i++ {
		s, _ := randTimeText(r.Fork(uint64(i)))
		runTime("random-time", s)
	}
}

var proofTypes = []string{"Ed25519Signature2018", "Ed25519Signature2018", "JsonWebSignature2020", "Ed25519Signature2020", "BbsBlsSignature2020"}

// randDIDProof: one proof of a DID document.  ok=false: the document must be refused (or is outside the model).
func randDIDProof(r *hx.Rng, absBase string, unknown bool) *J {
	ty := proofTypes[r.Intn(len(proofTypes))]
	created, _ := randTimeText(r)
	p := obj(kv("type", str(ty)), kv("created", str(created)))
	sig := r.Bytes([]int{1, 2, 3, 16, 31, 32, 64}[r.Intn(7)])

	switch {
	case ty == "Ed25519Signature2020":
		p.O = append(p.O, kv("proofValue", str("z"+base58.Encode(sig))))
	default:
		switch r.Intn(6) {
		case 0:
			p.O = append(p.O, kv("proofValue", str(base64.StdEncoding.EncodeToString(sig))))
		case 1:
			p.O = append(p.O, kv("proofValue", str(base64.RawStdEncoding.EncodeToString(sig))))
		case 2:
			// non-zero unused bits in the tail (Go's decoders are not strict): the canonical text comes back
			s := base64.RawURLEncoding.EncodeToString(sig)
			if len(sig)%3 != 0 {
				const alpha = "ABCDEFGHIJKLMNOPQRSTUVWXYZabcdefghijklmnopqrstuvwxyz0123456789-_"

				last := strings.IndexByte(alpha, s[len(s)-1])
				s = s[:len(s)-1] + string(alpha[last|1])
			}

			p.O = append(p.O, kv("proofValue", str(s)))
		default:
			p.O = append(p.O, kv("proofValue", str(base64.RawURLEncoding.EncodeToString(sig))))
		}
	}

	if r.Intn(12) != 0 { // required by the schema: without it the document is refused
		frag := fmt.Sprintf("#k%d", 1+r.Intn(3))
		p.O = append(p.O, kv("creator", str([]string{frag, didID + frag, absBase + frag, "did:ex:other" + frag}[r.Intn(4)])))
	}

	if r.Intn(2) == 0 {
		p.O = append(p.O, kv("domain", str([]string{"example.com", "", "https://ex.com/a?b=c"}[r.Intn(3)])))
	}

	if r.Intn(2) == 0 {
		p.O = append(p.O, kv("nonce", str(base64.RawURLEncoding.EncodeToString(r.Bytes(r.Intn(12))))))
	}

	if r.Intn(3) != 0 {
		p.O = append(p.O, kv("proofPurpose", str([]string{"assertionMethod", "authentication"}[r.Intn(2)])))
	}

	if unknown {
		// members the Proof struct of the did package does not have (recorded finding: dropped)
		p.O = append(p.O, []KV{kv("verificationMethod", str(didID+"#k1")), kv("jws", str("eyJhbGciOiJFZERTQSJ9..c2ln")), kv("x-custom", num(7))}[r.Intn(3)])
	}

	shuffle(r, p.O)

	return p
}

// decorateDID adds created / updated / proof to a generated document.
func decorateDID(r *hx.Rng, d *J, absBase string, unknown bool) {
	if r.Intn(2) == 0 {
		s, _ := randTimeText(r)
		d.O = append(d.O, kv("created", str(s)))
	}

	if r.Intn(3) == 0 {
		s, _ := randTimeText(r)
		d.O = append(d.O, kv("updated", str(s)))
	}

	if r.Intn(12) == 0 {
		d.O = append(d.O, kv([]string{"created", "updated"}[r.Intn(2)]+"", null()))
		// a repeated member name would be outside the model: keep the first one only
		seen := map[string]bool{}
		o := d.O[:0]

		for _, m := range d.O {
			if !seen[m.K] {
				o = append(o, m)
			}

			seen[m.K] = true
		}

		d.O = o
	}

	if r.Intn(2) == 0 || unknown {
		l := arr()
		for i := 0; i < 1+r.Intn(3); i++ {
			l.A = append(l.A, randDIDProof(r, absBase, unknown && i == 0))
		}

		d.O = append(d.O, kv("proof", l))
	}
}

func sameInstant(a, b string) bool {
	t1, e1 := time.Parse(time.RFC3339Nano, a)
	t2, e2 := time.Parse(time.RFC3339Nano, b)

	if e1 != nil || e2 != nil {
		return false
	}

	_, o1 := t1.Zone()
	_, o2 := t2.Zone()

	return t1.Equal(t2) && o1 == o2
}

func anyB64(s string) ([]byte, bool) {
	for _, e := range []*base64.Encoding{base64.RawURLEncoding, base64.StdEncoding, base64.RawStdEncoding} {
		if b, err := e.DecodeString(s); err == nil {
			return b, true
		}
	}

	return nil, false
}

// diffDIDTimesAndProofs: the direct oracle for created / updated / proof of a DID document (member by member:
// same instant and offset, same bytes of proofValue and nonce, same reference as creator, nothing invented).
func diffDIDTimesAndProofs(doc, out *J, abs func(string) string) []string {
	var d []string

	for _, k := range []string{"created", "updated"} {
		a, o := doc.get(k), out.get(k)

		switch {
		case a == nil || a.K == jNull:
			if o != nil {
				d = append(d, "invented:"+k)
			}
		case o == nil || o.K != jStr:
			d = append(d, "lost:"+k)
		case !sameInstant(a.S, o.S) && !moreThanNanos(a.S):
			d = append(d, "changed:"+k)
		}
	}

	ip, op := doc.get("proof"), out.get("proof")
	if ip == nil || ip.K != jArr {
		if op != nil {
			d = append(d, "invented:proof")
		}

		return d
	}

	if op == nil || op.K != jArr || len(op.A) != len(ip.A) {
		if len(ip.A) > 0 {
			d = append(d, "proof.count")
		}

		return d
	}

	sv := func(j *J, k string) string {
		if v := j.get(k); v != nil && v.K == jStr {
			return v.S
		}

		return ""
	}

	for i := range ip.A {
		a, o := ip.A[i], op.A[i]

		for _, k := range []string{"type", "domain", "proofPurpose"} {
			if sv(a, k) != sv(o, k) {
				d = append(d, "proof.changed:"+k)
			}
		}

		if abs(sv(a, "creator")) != abs(sv(o, "creator")) || strings.HasPrefix(sv(a, "creator"), "#") != strings.HasPrefix(sv(o, "creator"), "#") {
			d = append(d, "proof.changed:creator")
		}

		if !sameInstant(sv(a, "created"), sv(o, "created")) && !moreThanNanos(sv(a, "created")) {
			d = append(d, "proof.changed:created")
		}

		na, _ := base64.RawURLEncoding.DecodeString(sv(a, "nonce"))
		no, e := base64.RawURLEncoding.DecodeString(sv(o, "nonce"))

		if e != nil || !bytes.Equal(na, no) {
			d = append(d, "proof.changed:nonce")
		}

		if sv(a, "type") == "Ed25519Signature2020" {
			if sv(a, "proofValue") != sv(o, "proofValue") {
				d = append(d, "proof.changed:proofValue")
			}
		} else {
			va, _ := anyB64(sv(a, "proofValue"))
			vo, ok := anyB64(sv(o, "proofValue"))

			if !ok || !bytes.Equal(va, vo) {
				d = append(d, "proof.changed:proofValue")
			}
		}

		for _, m := range o.O {
			if a.get(m.K) == nil {
				d = append(d, "proof.invented:"+m.K)
			}
		}

		for _, m := range a.O {
			// an empty string stands for an unset member (the Proof struct has no presence flags)
			if o.get(m.K) == nil && !(m.V.K == jStr && m.V.S == "") {
				d = append(d, "proof.lost:"+m.K)
			}
		}
	}

	return d
}
