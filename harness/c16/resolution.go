package main

import (
	"fmt"
	"strings"

	"github.com/hyperledger/aries-framework-go/component/kmscrypto/doc/jose/jwk"
	"github.com/hyperledger/aries-framework-go/component/kmscrypto/doc/util/fingerprint"
	"github.com/hyperledger/aries-framework-go/component/models/did"

	"verifharness/hx"
)

// DID resolution results: {"@context", "didDocument", "didDocumentMetadata"} around a DID document.

var (
	metaKnown   = map[string]bool{"versionId": true, "deactivated": true, "canonicalId": true, "equivalentId": true, "method": true}
	methodKnown = map[string]bool{"updateCommitment": true, "recoveryCommitment": true, "published": true, "anchorOrigin": true,
		"unpublishedOperations": true, "publishedOperations": true}
	opKnown = map[string]bool{"operation": true, "protocolVersion": true, "transactionNumber": true, "transactionTime": true, "type": true,
		"anchorOrigin": true, "canonicalReference": true, "equivalentReferences": true}
)

func randResolution(r *hx.Rng) (*J, bool) {
	var d *J
	for {
		d = randDID(r.Fork(uint64(r.Intn(1 << 30))))
		if !d.hasInexact() { // the document itself is C16's DID stream; here it only has to be accepted
			break
		}
	}

	extras := r.Intn(6) == 0
	meta := obj()

	if r.Bool() {
		meta.O = append(meta.O, kv("versionId", str("v1")))
	}

	if r.Bool() {
		meta.O = append(meta.O, kv("deactivated", boolean(true)))
	}

	if r.Bool() {
		meta.O = append(meta.O, kv("canonicalId", str("did:ex:canonical")))
	}

	if r.Bool() {
		meta.O = append(meta.O, kv("equivalentId", arr(str("did:ex:e1"), str("did:ex:e2"))))
	}

	if r.Bool() {
		op := obj(kv("operation", str("b64")), kv("protocolVersion", num(1)), kv("transactionNumber", num(7)), kv("transactionTime", num(1700000000)),
			kv("type", str("update")), kv("anchorOrigin", str("ipfs://x")), kv("canonicalReference", str("ref")), kv("equivalentReferences", arr(str("r1"))))
		me := obj(kv("updateCommitment", str("uc")), kv("recoveryCommitment", str("rc")), kv("published", boolean(true)), kv("anchorOrigin", str("o")))

		if r.Bool() {
			me.O = append(me.O, kv("publishedOperations", arr(op)))
		}

		if r.Bool() {
			me.O = append(me.O, kv("unpublishedOperations", arr(op.clone(), op.clone())))
		}

		if extras && r.Bool() {
			me.O = append(me.O, kv("customMethodMember", num(1)))
		}

		meta.O = append(meta.O, kv("method", me))
	}

	if extras {
		switch r.Intn(3) {
		case 0:
			meta.O = append(meta.O, kv("created", str("2020-01-01T00:00:00Z")), kv("updated", str("2021-01-01T00:00:00Z")))
		case 1:
			meta.O = append(meta.O, kv("customMeta", obj(kv("a", num(1)))))
		default:
			meta.O = append(meta.O, kv("nextUpdate", str("2022-01-01T00:00:00Z")))
		}
	}

	shuffle(r, meta.O)

	res := obj(kv("@context", []*J{str("https://w3id.org/did-resolution/v1"), arr(str("https://w3id.org/did-resolution/v1"))}[r.Intn(2)]), kv("didDocument", d))
	if len(meta.O) > 0 || r.Bool() {
		res.O = append(res.O, kv("didDocumentMetadata", meta))
	}

	if extras && r.Bool() {
		res.O = append(res.O, kv("didResolutionMetadata", obj(kv("contentType", str("application/did+ld+json")))))
	}

	shuffle(r, res.O)

	return res, extras
}

// dropUnknown lists (and removes) the members of the resolution result the typed structs do not know.
func dropUnknown(res *J) []string {
	var dropped []string

	for _, m := range append([]KV{}, res.O...) {
		if m.K != "@context" && m.K != "didDocument" && m.K != "didDocumentMetadata" {
			dropped = append(dropped, m.K)
			res.del(m.K)
		}
	}

	meta := res.get("didDocumentMetadata")
	if meta == nil || meta.K != jObj {
		return dropped
	}

	for _, m := range append([]KV{}, meta.O...) {
		if !metaKnown[m.K] {
			dropped = append(dropped, "didDocumentMetadata."+m.K)
			meta.del(m.K)
		}
	}

	if me := meta.get("method"); me != nil && me.K == jObj {
		for _, m := range append([]KV{}, me.O...) {
			if !methodKnown[m.K] {
				dropped = append(dropped, "didDocumentMetadata.method."+m.K)
				me.del(m.K)
			}
		}
	}

	return dropped
}

func runResolution(kind string, res *J, note string) {
	data := []byte(res.JSON())
	rec := &hx.Record{Kind: kind, Case: caseDesc{Kind: "didres", Doc: data, Note: note}, Oracle: "ok", Dist: []string{"didres"}}

	fail := func(sig, detail string) {
		if rec.Oracle == "ok" {
			rec.Oracle, rec.Sig, rec.Detail = "fail", sig, detail
		}
	}

	func() {
		defer func() {
			if p := recover(); p != nil {
				fail("panic:didres", fmt.Sprint(p))
			}
		}()

		dr, err := did.ParseDocumentResolution(data)
		if err != nil {
			rec.Trivial, rec.Class = true, "didres-error:"+firstWords(err.Error())
			rec.Observed = map[string]string{"error": err.Error()}

			return
		}

		b, err := dr.JSONBytes()
		if err != nil {
			fail("didres:marshal", err.Error())
			return
		}

		out, _ := parseJ(b)
		rec.Observed = map[string]string{"out": string(b)}
		rec.Class = "didres:" + shapeOf(res)

		if m := res.get("didDocumentMetadata"); m != nil {
			rec.Class += "/" + shapeOf(m)
		}

		// the document inside is the one ParseDocument -> JSONBytes gives
		if dd, e := did.ParseDocument([]byte(res.get("didDocument").JSON())); e == nil {
			db, _ := dd.JSONBytes()
			if dj, _ := parseJ(db); !jequal(dj, out.get("didDocument")) {
				fail("didres:document-differs", string(b))
			}
		}

		want := res.clone()
		dropped := dropUnknown(want)
		wm, om := want.get("didDocumentMetadata"), out.get("didDocumentMetadata")

		if wm == nil {
			wm = obj()
		}

		if om == nil {
			om = obj()
		}

		nctx := func(c *J) *J {
			if c != nil && c.K == jStr {
				return arr(c)
			}

			return c
		}

		var diffs []string

		if !jequal(nctx(want.get("@context")), nctx(out.get("@context"))) {
			diffs = append(diffs, "@context")
		}

		for _, x := range diffMembers(wm, om) {
			diffs = append(diffs, "didDocumentMetadata:"+x)
		}

		for _, m := range out.O {
			if m.K != "@context" && m.K != "didDocument" && m.K != "didDocumentMetadata" {
				diffs = append(diffs, "invented:"+m.K)
			}
		}

		switch {
		case len(diffs) > 0:
			fail("didres:member-not-preserved:"+diffs[0], strings.Join(diffs, ",")+" "+string(b))
		case len(dropped) > 0:
			fail("didres:unknown-metadata-member-dropped", strings.Join(dropped, ","))
		}

		// stable
		if dr2, e := did.ParseDocumentResolution(b); e != nil {
			fail("didres:reparse-fails", e.Error())
		} else if b2, _ := dr2.JSONBytes(); string(b2) != string(b) {
			fail("didres:reparse-differs", string(b2))
		}
	}()

	tr.Put(rec)
}

// did:key is not defined by this code for RSA and secp256k1 keys: the encoders must refuse them (not mis-encode them).
func runDIDKeyUnsupported(kind string) {
	for _, k := range testKeys {
		if k.name != "RSA" && k.name != "secp256k1" {
			continue
		}

		rec := &hx.Record{Kind: kind, Case: caseDesc{Kind: "didkey-unsupported", Note: k.name}, Oracle: "ok", Class: "didkey-unsupported:" + k.name,
			Dist: []string{"didkey", "didkey:unsupported=" + k.name}}

		func() {
			defer func() {
				if p := recover(); p != nil {
					rec.Oracle, rec.Sig, rec.Detail = "fail", "panic:didkey-unsupported", fmt.Sprint(p)
				}
			}()

			var j jwk.JWK
			if err := j.UnmarshalJSON([]byte(k.jwk.JSON())); err != nil {
				rec.Oracle, rec.Sig, rec.Detail = "fail", "jwk:unmarshal", err.Error()
				return
			}

			didKey, _, err := fingerprint.CreateDIDKeyByJwk(&j)
			rec.Observed = map[string]string{"didkey": didKey, "err": fmt.Sprint(err)}

			if err == nil {
				// accepted: then it has to decode back to the key
				raw, e := fingerprint.PubKeyFromDIDKey(didKey)
				if e != nil || len(raw) == 0 {
					rec.Oracle, rec.Sig, rec.Detail = "fail", "didkey:unsupported-key-type-misencoded", didKey
				}
			}
		}()

		tr.Put(rec)
	}
}
