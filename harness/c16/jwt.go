package main

import (
	"encoding/base64"
	"encoding/json"
	"fmt"
	"sort"
	"strings"
	"time"

	"github.com/hyperledger/aries-framework-go/component/models/verifiable"

	"verifharness/hx"
)

func parseDate(s string) (time.Time, bool) {
	t, err := time.Parse(time.RFC3339, s)
	if err != nil {
		t, err = time.Parse(time.RFC3339, s+"Z")
	}

	return t, err == nil
}

// randJWTVC: a credential the JWT encoding is defined for (one subject, an issuance date).
func randJWTVC(r *hx.Rng) *J {
	for i := 0; ; i++ {
		d, f := randVC(r.Fork(uint64(i)))
		if (f != feat{}) || d.get("issuanceDate") == nil || d.get("jwt") != nil {
			continue
		}

		s := d.get("credentialSubject")
		if s == nil || s.K == jArr && len(s.A) != 1 || s.K == jArr && s.A[0].K != jObj {
			continue
		}

		if t := d.get("type"); t == nil {
			continue
		}

		return d
	}
}

func optZ(p *int64) string {
	if p == nil {
		return "None"
	}

	return fmt.Sprintf("(Some (%d)%%Z)", *p)
}

func runJWT(kind string, doc *J, minimize bool, note string) {
	data := []byte(doc.JSON())
	rec := &hx.Record{Kind: kind, Case: caseDesc{Kind: "jwt", Doc: data, Minimize: minimize, Note: note}, Oracle: "ok",
		Dist: []string{"jwt", fmt.Sprintf("jwt:minimize=%v", minimize)}}

	fail := func(sig, detail string) {
		if rec.Oracle == "ok" {
			rec.Oracle, rec.Sig, rec.Detail = "fail", sig, detail
		}
	}

	func() {
		defer func() {
			if p := recover(); p != nil {
				fail("panic:jwt", fmt.Sprint(p))
			}
		}()

		r1 := doVC(data, false)
		if r1.err != nil {
			rec.Trivial, rec.Class = true, "jwt-parse-error"
			rec.Observed = map[string]string{"error": r1.err.Error()}

			return
		}

		claims, err := r1.vc.JWTClaims(minimize)
		if err != nil {
			rec.Trivial, rec.Class = true, "jwt-claims-error:"+firstWords(err.Error())
			rec.Observed = map[string]string{"error": err.Error()}

			return
		}

		vcb, _ := json.Marshal(claims.VC)
		vcClaim, _ := parseJ(vcb)

		ujwt, err := claims.MarshalUnsecuredJWT()
		if err != nil {
			fail("jwt:marshal-unsecured", err.Error())
			return
		}

		vc2, err := verifiable.ParseCredential([]byte(ujwt), vcOpts(false)...)
		if err != nil {
			fail("jwt:decode-refused", err.Error())
			return
		}

		b2, err := vc2.MarshalJSON()
		if err != nil {
			fail("jwt:remarshal", err.Error())
			return
		}

		rebuilt, _ := parseJ(b2)

		var nbf, iat, exp *int64

		if claims.NotBefore != nil {
			v := int64(*claims.NotBefore)
			nbf = &v
		}

		if claims.IssuedAt != nil {
			v := int64(*claims.IssuedAt)
			iat = &v
		}

		if claims.Expiry != nil {
			v := int64(*claims.Expiry)
			exp = &v
		}

		rec.Observed = map[string]interface{}{"iss": claims.Issuer, "sub": claims.Subject, "jti": claims.ID, "nbf": nbf, "exp": exp,
			"vc": string(vcb), "rebuilt": string(b2)}
		rec.Class = fmt.Sprintf("jwt:%v:%s", minimize, shapeOf(doc))

		if v := doc.get("issuanceDate"); v != nil && v.K == jStr && !strings.HasSuffix(v.S, "Z") {
			rec.Dist = append(rec.Dist, "jwt:issuanceDate-with-offset-or-no-zone")
		}

		// time conversions (Go's time package) handed to the model
		var secs, fmts []string

		seen := map[int64]bool{}

		for _, k := range []string{"issuanceDate", "expirationDate"} {
			if v := doc.get(k); v != nil && v.K == jStr {
				if t, ok := parseDate(v.S); ok {
					secs = append(secs, fmt.Sprintf("(%s, (%d)%%Z)", hx.CoqString(v.S), t.Unix()))

					if !seen[t.Unix()] {
						seen[t.Unix()] = true
						fmts = append(fmts, fmt.Sprintf("((%d)%%Z, %s)", t.Unix(), hx.CoqString(time.Unix(t.Unix(), 0).UTC().Format(time.RFC3339))))
					}
				}
			}
		}

		sort.Strings(secs)

		if doc.coqable() && vcClaim.coqable() && rebuilt.coqable() {
			rec.Coq = fmt.Sprintf("CJWT %s %s %s %s %s %s %s %s %s %s %s %s", doc.Coq(), hx.CoqBool(minimize), hx.CoqList(secs), hx.CoqList(fmts),
				hx.CoqString(claims.Issuer), hx.CoqString(claims.Subject), hx.CoqString(claims.ID), optZ(nbf), optZ(iat), optZ(exp),
				vcClaim.Coq(), rebuilt.Coq())
		}

		// direct oracle: the credential rebuilt from the JWT claims carries the same members as the JSON-LD form
		// (dates compared as instants at the resolution of NumericDate, whole seconds)
		inst := func(d *J, whole bool) *J {
			c := normVC(d)

			for _, k := range []string{"issuanceDate", "expirationDate"} {
				if v := c.get(k); v != nil && v.K == jStr {
					if t, ok := parseDate(v.S); ok {
						if whole {
							c.set(k, num(t.Unix()))
						} else {
							c.set(k, bignum(fmt.Sprint(t.UnixNano())))
						}
					}
				}
			}

			return c
		}

		if diffs := diffMembers(inst(r1.out, false), inst(rebuilt, false)); len(diffs) > 0 {
			if len(diffMembers(inst(r1.out, true), inst(rebuilt, true))) == 0 {
				// the instants agree to the second: NumericDate carries whole seconds only
				fail("jwt:subsecond-date-truncated", strings.Join(diffs, ","))
			} else {
				fail("jwt:claims-differ:"+diffs[0], strings.Join(diffs, ","))
			}

			return
		}

		// the registered claims are the members they stand for
		want := func(name, got, exp string) {
			if got != exp {
				fail("jwt:claim-"+name, fmt.Sprintf("%q vs %q", got, exp))
			}
		}

		id := ""
		if v := r1.out.get("id"); v != nil && v.K == jStr {
			id = v.S
		}

		want("jti", claims.ID, id)

		issID := ""
		if v := r1.out.get("issuer"); v != nil {
			if v.K == jStr {
				issID = v.S
			} else if w := v.get("id"); w != nil && w.K == jStr {
				issID = w.S
			}
		}

		want("iss", claims.Issuer, issID)

		if minimize {
			for _, k := range []string{"id", "issuanceDate", "expirationDate"} {
				if v := vcClaim.get(k); v != nil && !(v.K == jStr && v.S == "") && doc.get(k) != nil && doc.get(k).K == jStr && doc.get(k).S != "" {
					fail("jwt:not-minimized:"+k, string(vcb))
				}
			}
		}
	}()

	tr.Put(rec)
}

// ---------- the remaining corners of the JWT mapping ----------

// runJWTMultiSubject: the JWT form is defined for one subject: a credential with several subjects must be refused
// (not encoded with one of them).
func runJWTMultiSubject(kind string, doc *J) {
	data := []byte(doc.JSON())
	rec := &hx.Record{Kind: kind, Case: caseDesc{Kind: "jwtmulti", Doc: data}, Oracle: "ok", Class: "jwt-multi:" + shapeOf(doc),
		Dist: []string{"jwt", "jwt:several-subjects"}}

	func() {
		defer func() {
			if p := recover(); p != nil {
				rec.Oracle, rec.Sig, rec.Detail = "fail", "panic:jwt", fmt.Sprint(p)
			}
		}()

		r1 := doVC(data, false)
		if r1.err != nil {
			rec.Trivial = true
			return
		}

		for _, min := range []bool{false, true} {
			claims, err := r1.vc.JWTClaims(min)
			rec.Observed = map[string]string{"err": fmt.Sprint(err)}

			if err == nil {
				rec.Oracle, rec.Sig, rec.Detail = "fail", "jwt:several-subjects-encoded", fmt.Sprintf("sub=%q", claims.Subject)
			}
		}
	}()

	tr.Put(rec)
}

// runJWTVP: Presentation.JWTClaims(audience, minimize) -> unsecured JWT -> ParsePresentation.
func runJWTVP(kind string, doc *J, aud []string, minimize bool) {
	data := []byte(doc.JSON())
	rec := &hx.Record{Kind: kind, Case: caseDesc{Kind: "jwtvp", Doc: data, Minimize: minimize, Note: strings.Join(aud, " ")}, Oracle: "ok",
		Dist: []string{"jwtvp", fmt.Sprintf("jwtvp:aud=%d", len(aud)), fmt.Sprintf("jwtvp:minimize=%v", minimize)}}

	fail := func(sig, detail string) {
		if rec.Oracle == "ok" {
			rec.Oracle, rec.Sig, rec.Detail = "fail", sig, detail
		}
	}

	func() {
		defer func() {
			if p := recover(); p != nil {
				fail("panic:jwtvp", fmt.Sprint(p))
			}
		}()

		r1 := doVP(data)
		if r1.err != nil {
			rec.Trivial, rec.Class = true, "jwtvp-parse-error"
			return
		}

		rec.Class = fmt.Sprintf("jwtvp:%v:%d:%s", minimize, len(aud), shapeOf(doc))

		claims, err := r1.vp.JWTClaims(aud, minimize)
		if err != nil {
			fail("jwtvp:claims", err.Error())
			return
		}

		// registered claims: iss = holder, jti = id, aud = the audience given
		holder, id := "", ""
		if v := r1.out.get("holder"); v != nil && v.K == jStr {
			holder = v.S
		}

		if v := r1.out.get("id"); v != nil && v.K == jStr {
			id = v.S
		}

		if claims.Issuer != holder || claims.ID != id {
			fail("jwtvp:registered-claims", fmt.Sprintf("iss=%q jti=%q vs holder=%q id=%q", claims.Issuer, claims.ID, holder, id))
		}

		if strings.Join([]string(claims.Audience), " ") != strings.Join(aud, " ") {
			fail("jwtvp:aud", fmt.Sprintf("%v vs %v", claims.Audience, aud))
		}

		ujwt, err := claims.MarshalUnsecuredJWT()
		if err != nil {
			fail("jwtvp:marshal", err.Error())
			return
		}

		// the audience travels in the token
		if parts := strings.Split(ujwt, "."); len(parts) >= 2 {
			if pb, e := base64.RawURLEncoding.DecodeString(parts[1]); e == nil {
				if pj, e2 := parseJ(pb); e2 == nil {
					a := pj.get("aud")
					got := []string{}

					if a != nil && a.K == jStr {
						got = []string{a.S}
					} else if a != nil && a.K == jArr {
						for _, x := range a.A {
							got = append(got, x.S)
						}
					}

					if strings.Join(got, " ") != strings.Join(aud, " ") {
						fail("jwtvp:aud-not-in-token", string(pb))
					}
				}
			}
		}

		vp2, err := verifiable.ParsePresentation([]byte(ujwt), verifiable.WithPresDisabledProofCheck(), verifiable.WithDisabledJSONLDChecks(),
			verifiable.WithPresJSONLDDocumentLoader(loader))
		if err != nil {
			fail("jwtvp:decode-refused", err.Error())
			return
		}

		b2, err := vp2.MarshalJSON()
		if err != nil {
			fail("jwtvp:remarshal", err.Error())
			return
		}

		rebuilt, _ := parseJ(b2)
		rec.Observed = map[string]string{"rebuilt": string(b2), "iss": claims.Issuer, "jti": claims.ID}

		if d := diffMembers(normVC(r1.out), normVC(rebuilt)); len(d) > 0 {
			fail("jwtvp:claims-differ:"+d[0], strings.Join(d, ","))
		}
	}()

	tr.Put(rec)
}
