package main

import (
	"encoding/hex"
	"encoding/pem"
	"fmt"
	"strings"
	"unicode/utf8"

	"github.com/btcsuite/btcutil/base58"
	"github.com/multiformats/go-multibase"

	"github.com/hyperledger/aries-framework-go/component/models/did"

	"verifharness/hx"
)

const didID = "did:ex:123"

var svcTyped = []string{"id", "type", "serviceEndpoint", "recipientKeys", "routingKeys", "priority"}

var didBases = []string{"", "", didID, didID + ":EiAlongFormSuffix", "did:other:base"}

var b58keys = []string{"3mJr7AoUXx2Wqd9aFaP4nQ6b1yT3kqNu7tb1eXgP6aVH", "H3C2AVvLMv6gmMNam3uVAjZpfkcJCwDwnZn6z3wXmqPV", "5yKdnU7ToTjAoRNDzfuzVTfWBH38qyhE1b9xh4v8JaWF"}

var relNames = []string{"authentication", "assertionMethod", "capabilityDelegation", "capabilityInvocation", "keyAgreement"}

// randDID: a DID document with an optional @base that differs from the id, verification methods with relative and
// absolute ids in base58 / multibase / JWK form, every verification relationship with referenced (relative and
// absolute) and embedded (relative and absolute) methods, services with relative ids and custom properties.
func randDID(r *hx.Rng) *J {
	// at most one defect-prone feature per document: big numbers, a multi-entry endpoint, JWK members the jwk package drops
	var f feat

	unknownProof := false

	switch r.Intn(16) {
	case 0:
		f.big = true
	case 1, 2:
		f.caseVar = true // stands for: multi-entry / decorated DIDComm V2 endpoint
	case 3:
		f.jwt = true // stands for: JWK with key_ops / custom members
	case 4:
		unknownProof = true // a proof member the did.Proof struct does not have
	}

	allModelled := true
	exoticDoc := r.Intn(3) == 0 // key encodings the Coq model does not describe: hex, PEM, multibase prefixes other than z
	base := didBases[r.Intn(len(didBases))]
	ctx := arr(str("https://www.w3.org/ns/did/v1"))

	if r.Intn(4) == 0 {
		ctx.A = append(ctx.A, str("https://w3id.org/security/suites/ed25519-2018/v1"))
	}

	if r.Intn(5) == 0 {
		ctx.A = append(ctx.A, obj(kv("@vocab", str("urn:v#"))))
	}

	if base != "" {
		ctx.A = append(ctx.A, obj(kv("@base", str(base))))
	} else if r.Bool() && len(ctx.A) == 1 {
		ctx = ctx.A[0]
	}

	d := obj(kv("@context", ctx), kv("id", str(didID)))
	nk := 0
	absBase := base

	if absBase == "" {
		absBase = didID
	}

	vm := func() *J {
		nk++
		id := fmt.Sprintf("#k%d", nk)

		switch r.Intn(3) {
		case 0:
			id = didID + id
		case 1:
			id = absBase + id
		}

		ctrl := []string{didID, didID, "did:ex:controller", ""}[r.Intn(4)]
		o := obj(kv("id", str(id)), kv("controller", str(ctrl)))
		km, modelled := randKeyMaterial(r, f.jwt, exoticDoc && r.Bool())
		o.O = append(o.O, km...)

		if !modelled {
			allModelled = false
		}

		shuffle(r, o.O)

		return o
	}

	vms := arr()
	for i := 0; i < 1+r.Intn(3); i++ {
		vms.A = append(vms.A, vm())
	}

	d.O = append(d.O, kv("verificationMethod", vms))

	for _, rel := range relNames {
		if r.Intn(3) == 0 {
			continue
		}

		l := arr()

		for i := 0; i < 1+r.Intn(3); i++ {
			if r.Bool() {
				l.A = append(l.A, vm())
				continue
			}

			// a reference to one of the methods, spelled relative or absolute
			id := vms.A[r.Intn(len(vms.A))].get("id").S
			frag := id[strings.Index(id, "#"):]

			switch r.Intn(3) {
			case 0:
				l.A = append(l.A, str(id))
			case 1:
				if strings.HasPrefix(id, "#") || strings.HasPrefix(id, absBase+"#") {
					l.A = append(l.A, str(frag))
				} else {
					l.A = append(l.A, str(id))
				}
			default:
				if strings.HasPrefix(id, "#") {
					l.A = append(l.A, str(absBase+frag))
				} else {
					l.A = append(l.A, str(id))
				}
			}
		}

		d.O = append(d.O, kv(rel, l))
	}

	if r.Intn(3) == 0 {
		d.O = append(d.O, kv("alsoKnownAs", arr(str("did:ex:aka1"), str("https://ex.com/me"))))
	}

	n := r.Intn(4)
	svcs := arr()

	for i := 0; i < n; i++ {
		s := obj(kv("id", str([]string{didID + "#s", "#s", absBase + "#s"}[r.Intn(3)]+fmt.Sprint(i))),
			kv("type", []*J{str("LinkedDomains"), arr(str("A"), str("B")), str("did-communication")}[r.Intn(3)]))

		form := []int{0, 0, 1, 1, 2, 2, 2}[r.Intn(7)]
		if f.caseVar && i == 0 {
			form = 3
		}

		switch form {
		case 0:
			s.O = append(s.O, kv("serviceEndpoint", str("https://ex.com/ep")))
		case 1:
			s.O = append(s.O, kv("serviceEndpoint", obj(kv("origins", arr(str("https://ex.com"))))))
		case 2:
			e := obj(kv("uri", str("https://ex.com/v2")))
			if r.Bool() {
				e.O = append(e.O, kv("accept", arr(str("didcomm/v2"))))
			}

			if r.Bool() {
				// routing keys inside the endpoint entry, relative and absolute
				l := arr()
				for j := 0; j < 1+r.Intn(2); j++ {
					frag := fmt.Sprintf("#k%d", 1+r.Intn(4))
					l.A = append(l.A, str([]string{frag, didID + frag, absBase + frag, "did:ex:r" + frag}[r.Intn(4)]))
				}

				e.O = append(e.O, kv("routingKeys", l))
			}

			shuffle(r, e.O)
			s.O = append(s.O, kv("serviceEndpoint", arr(e)))
		default:
			// several endpoints / extra members of an endpoint (known finding: only the first entry's uri, accept
			// and routingKeys are kept)
			e1 := obj(kv("uri", str("https://ex.com/v2")))
			if r.Bool() {
				e1.O = append(e1.O, kv("label", str("primary")))
				s.O = append(s.O, kv("serviceEndpoint", arr(e1)))
			} else {
				s.O = append(s.O, kv("serviceEndpoint", arr(e1, obj(kv("uri", str("https://ex.com/second"))))))
			}
		}

		if r.Bool() {
			s.O = append(s.O, kv("priority", num(int64(r.Intn(3)))))
		}

		// key references of the service: relative, id-prefixed, base-prefixed and foreign spellings
		keyRefs := func() *J {
			l := arr()
			for j := 0; j < 1+r.Intn(3); j++ {
				frag := fmt.Sprintf("#k%d", 1+r.Intn(4))
				l.A = append(l.A, str([]string{frag, didID + frag, absBase + frag, "did:ex:r" + frag}[r.Intn(4)]))
			}

			return l
		}

		if r.Intn(2) == 0 {
			s.O = append(s.O, kv("recipientKeys", keyRefs()))
		}

		if r.Intn(2) == 0 {
			s.O = append(s.O, kv("routingKeys", keyRefs()))
		}

		for _, m := range randMembers(r, 3, r.Intn(4), &f) {
			if s.get(m.K) == nil {
				s.O = append(s.O, m)
			}
		}

		if r.Intn(3) == 0 {
			s.O = append(s.O, kv("accept", arr(str("didcomm/aip2;env=rfc19"))))
		}

		shuffle(r, s.O)
		svcs.A = append(svcs.A, s)
	}

	if n > 0 {
		d.O = append(d.O, kv("service", svcs))
	}

	decorateDID(r, d, absBase, unknownProof)
	shuffle(r, d.O)

	_ = allModelled

	return d
}

// keyEncodingsModelled: every verification method of the document gives its key as base58, multibase z or JWK
// (hex, PEM and the other multibase prefixes are compared by the direct oracle only).
func keyEncodingsModelled(d *J) bool {
	ok := true

	var walk func(j *J)

	walk = func(j *J) {
		switch j.K {
		case jArr:
			for _, x := range j.A {
				walk(x)
			}
		case jObj:
			if j.get("publicKeyHex") != nil || j.get("publicKeyPem") != nil {
				ok = false
			}

			if v := j.get("publicKeyMultibase"); v != nil && !(v.K == jStr && strings.HasPrefix(v.S, "z")) {
				ok = false
			}
		}
	}

	for _, k := range append([]string{"verificationMethod"}, relNames...) {
		if v := d.get(k); v != nil {
			walk(v)
		}
	}

	return ok
}

func keyBytesOf(vm *J) string {
	if v := vm.get("publicKeyBase58"); v != nil && v.K == jStr && v.S != "" {
		return "raw:" + hex.EncodeToString(base58.Decode(v.S))
	}

	if v := vm.get("publicKeyMultibase"); v != nil && v.K == jStr && v.S != "" {
		_, b, err := multibase.Decode(v.S)
		if err != nil {
			return "undecodable multibase: " + err.Error()
		}

		return "raw:" + hex.EncodeToString(b)
	}

	if v := vm.get("publicKeyHex"); v != nil && v.K == jStr && v.S != "" {
		return "raw:" + strings.ToLower(v.S)
	}

	if v := vm.get("publicKeyPem"); v != nil && v.K == jStr && v.S != "" {
		if blk, _ := pem.Decode([]byte(v.S)); blk != nil {
			return "raw:" + hex.EncodeToString(blk.Bytes)
		}

		return "undecodable pem"
	}

	if v := vm.get("publicKeyJwk"); v != nil && v.K == jObj {
		// the key itself: the members that carry key material
		k := obj()

		for _, m := range v.O {
			switch m.K {
			case "kty", "crv", "x", "y", "n", "e":
				k.O = append(k.O, m)
			}
		}

		return "jwk:" + k.canon()
	}

	return "none"
}

// diffVM compares a verification method of the input with its serialisation (ids exactly: a relative id stays relative).
func diffVM(in, out *J, where string) []string {
	var d []string

	for _, k := range []string{"id", "type"} {
		if !jequal(in.get(k), out.get(k)) {
			d = append(d, where+"."+k)
		}
	}

	ic, oc := in.get("controller"), out.get("controller")
	id := in.get("id")
	defaulted := id != nil && id.K == jStr && strings.HasPrefix(id.S, "#") && (ic == nil || ic.K == jStr && ic.S == "")

	if !defaulted && !jequal(ic, oc) {
		d = append(d, where+".controller")
	}

	if keyBytesOf(in) != keyBytesOf(out) {
		d = append(d, where+".key")
	}

	if ij, oj := in.get("publicKeyJwk"), out.get("publicKeyJwk"); ij != nil && ij.K == jObj && oj != nil && oj.K == jObj {
		for _, m := range ij.O {
			if o := oj.get(m.K); o == nil {
				if m.K == "key_ops" || !jwkRegistered[m.K] {
					d = append(d, where+".jwk-dropped:"+m.K)
				} else {
					d = append(d, where+".jwk-lost:"+m.K)
				}
			} else if !jequal(m.V, o) {
				d = append(d, where+".jwk-changed:"+m.K)
			}
		}

		for _, m := range oj.O {
			if ij.get(m.K) == nil {
				d = append(d, where+".jwk-invented:"+m.K)
			}
		}
	}

	for _, m := range out.O {
		if in.get(m.K) == nil && !strings.HasPrefix(m.K, "publicKey") && m.K != "controller" {
			d = append(d, where+".invented:"+m.K)
		}
	}

	return d
}

func runDID(kind string, doc *J, note string) {
	data := []byte(doc.JSON())
	rec := &hx.Record{Kind: kind, Case: caseDesc{Kind: "did", Doc: data, Note: note}, Oracle: "ok", Dist: []string{"did"}}

	fail := func(sig, detail string) {
		if rec.Oracle == "ok" {
			rec.Oracle, rec.Sig, rec.Detail = "fail", sig, detail
		}
	}

	base := ""

	if c := doc.get("@context"); c != nil && c.K == jArr {
		for _, x := range c.A {
			if b := x.get("@base"); b != nil && b.K == jStr {
				base = b.S
			}
		}
	}

	rec.Dist = append(rec.Dist, map[bool]string{true: "did:base=none", false: map[bool]string{true: "did:base=id", false: "did:base!=id"}[base == didID]}[base == ""])

	idBase := base
	if idBase == "" {
		idBase = didID
	}

	abs := func(s string) string {
		if strings.HasPrefix(s, "#") {
			return idBase + s
		}

		return s
	}

	func() {
		defer func() {
			if p := recover(); p != nil {
				fail("panic:did", fmt.Sprint(p))
			}
		}()

		dd, err := did.ParseDocument(data)
		if err != nil {
			rec.Trivial, rec.Class = true, "did-error:"+firstWords(err.Error())
			rec.Observed = map[string]string{"error": err.Error()}

			// refused because of a time text or a proof: the model must refuse the document too
			if e := err.Error(); (strings.Contains(e, "proof.") || strings.Contains(e, "parsing time") || strings.Contains(e, "Time.UnmarshalJSON") ||
				strings.Contains(e, "illegal base64") || strings.Contains(e, "unsupported encoding")) && doc.coqable() && keyEncodingsModelled(doc) {
				rec.Coq = "CDIDR " + doc.Coq()
				rec.Class = "did-refused:time-or-proof:" + firstWords(e)
			}

			if strings.Contains(err.Error(), "does not exist in did doc") {
				// a reference the resolver cannot follow (absolute id written with another prefix): not a codec matter
				return
			}

			return
		}

		b, err := dd.JSONBytes()
		if err != nil {
			fail("did:marshal", err.Error())
			return
		}

		out, _ := parseJ(b)
		rec.Observed = map[string]string{"out": string(b)}
		rec.Class = "did:" + shapeOf(doc) + fmt.Sprint(base == "", base == didID)

		if doc.coqable() && out.coqable() && keyEncodingsModelled(doc) {
			rec.Coq = "CDID " + doc.Coq() + " " + out.Coq()
		}

		var diffs []string

		// defined members
		nctx := func(c *J) *J {
			if c != nil && c.K == jStr {
				return arr(c)
			}

			return c
		}

		if !jequal(nctx(doc.get("@context")), nctx(out.get("@context"))) {
			diffs = append(diffs, "@context")
		}

		for _, k := range []string{"id", "alsoKnownAs"} {
			if !jequal(doc.get(k), out.get(k)) {
				diffs = append(diffs, k)
			}
		}

		for _, m := range out.O {
			if doc.get(m.K) == nil {
				diffs = append(diffs, "invented:"+m.K)
			}
		}

		ivm, ovm := doc.get("verificationMethod"), out.get("verificationMethod")
		if ovm == nil || len(ovm.A) != len(ivm.A) {
			diffs = append(diffs, "verificationMethod.count")
		} else {
			for i := range ivm.A {
				diffs = append(diffs, diffVM(ivm.A[i], ovm.A[i], "verificationMethod")...)
			}
		}

		for _, k := range relNames {
			a, o := doc.get(k), out.get(k)
			if a == nil {
				continue
			}

			if o == nil || len(o.A) != len(a.A) {
				diffs = append(diffs, k+".count")
				continue
			}

			for i := range a.A {
				switch {
				case a.A[i].K != o.A[i].K:
					diffs = append(diffs, k+".form")
				case a.A[i].K == jStr && abs(a.A[i].S) != abs(o.A[i].S):
					diffs = append(diffs, k+".reference")
				case a.A[i].K == jObj:
					diffs = append(diffs, diffVM(a.A[i], o.A[i], k)...)
				}
			}
		}

		pdiffs := diffDIDTimesAndProofs(doc, out, abs)
		unknownOnly := len(pdiffs) > 0

		for _, x := range pdiffs {
			if !strings.HasPrefix(x, "proof.lost:") || strings.Contains(",type,created,creator,proofValue,domain,nonce,proofPurpose,", ","+strings.TrimPrefix(x, "proof.lost:")+",") {
				unknownOnly = false
			}
		}

		switch {
		case len(diffs) > 0 || len(pdiffs) == 0:
		case unknownOnly:
			fail("did:proof-unknown-member-dropped", strings.Join(pdiffs, ","))
		default:
			fail("did:member-not-preserved:"+pdiffs[0], strings.Join(pdiffs, ",")+" "+string(b))
		}

		if len(diffs) > 0 {
			onlyDropped := true

			for _, x := range diffs {
				if !strings.Contains(x, ".jwk-dropped:") {
					onlyDropped = false
				}
			}

			if onlyDropped {
				fail("did:jwk-key_ops-or-custom-member-dropped", strings.Join(diffs, ","))
			} else {
				fail("did:member-not-preserved:"+diffs[0], strings.Join(diffs, ",")+" "+string(b))
			}
		}

		if !utf8.Valid(b) {
			fail("did:output-not-utf8", fmt.Sprintf("%q", b))
		}

		// services
		ins, outs := doc.get("service"), out.get("service")
		if ins == nil {
			ins = arr()
		}

		if outs == nil {
			outs = arr()
		}

		if len(outs.A) != len(ins.A) {
			fail("did:service-count", string(b))
			return
		}

		var coq []string

		for i, s := range ins.A {
			o := outs.A[i]
			typed := obj()

			for _, m := range o.O {
				for _, k := range svcTyped {
					if m.K == k {
						typed.O = append(typed.O, m)
					}
				}
			}

			if s.coqable() && o.coqable() {
				coq = append(coq, fmt.Sprintf("CSVC2 %s %s %s %s", hx.CoqString(didID), hx.CoqString(base), coqObj(s.O), coqObj(o.O)))
			}

			// key lists: a reference keeps its spelling (relative stays relative); only when one list spells the same
			// key both ways does the implementation settle on one spelling, which is then compared as the reference it is
			ns, no := s.clone(), o.clone()

			for _, k := range []string{"recipientKeys", "routingKeys"} {
				l := ns.get(k)
				if l == nil || l.K != jArr {
					continue
				}

				spell := map[string]string{}
				mixed := false

				for _, e := range l.A {
					if e.K != jStr {
						continue
					}

					if p, ok := spell[abs(e.S)]; ok && p != e.S {
						mixed = true
					}

					spell[abs(e.S)] = e.S
				}

				if !mixed {
					continue
				}

				rec.Dist = append(rec.Dist, "did:service-key-spelled-both-ways")

				for _, x := range []*J{ns, no} {
					if lx := x.get(k); lx != nil && lx.K == jArr {
						for _, e := range lx.A {
							if e.K == jStr {
								e.S = abs(e.S)
							}
						}
					}
				}
			}

			// routing keys inside a DIDComm V2 endpoint entry are written relative when the service-level routingKeys
			// spell the same key relatively (one table of spellings serves both lists): the same reference
			if sl := s.get("routingKeys"); sl != nil && sl.K == jArr {
				relSpelled := map[string]bool{}

				for _, e := range sl.A {
					if e.K == jStr && strings.HasPrefix(e.S, "#") {
						relSpelled[abs(e.S)] = true
					}
				}

				for _, x := range []*J{ns, no} {
					if ep := x.get("serviceEndpoint"); ep != nil && ep.K == jArr && len(ep.A) > 0 {
						if l := ep.A[0].get("routingKeys"); l != nil && l.K == jArr {
							for _, e := range l.A {
								if e.K == jStr && relSpelled[abs(e.S)] {
									e.S = abs(e.S)
								}
							}
						}
					}
				}
			}

			sd := diffMembers(ns, no)
			if len(sd) == 0 {
				continue
			}

			ep := s.get("serviceEndpoint")
			truncated := ep != nil && ep.K == jArr && (len(ep.A) > 1 || len(ep.A) == 1 && func() bool {
				for _, m := range ep.A[0].O {
					if m.K != "uri" && m.K != "accept" && m.K != "routingKeys" {
						return true
					}
				}

				return false
			}())

			switch {
			case truncated && len(sd) == 1 && sd[0] == "changed:serviceEndpoint":
				fail("did:service-endpoint-array-truncated", strings.Join(sd, ",")+" "+o.JSON())
			case s.hasInexact() && len(diffMembers(ns.roundNumbers(), no.roundNumbers())) == 0:
				fail("did:number-above-2^53-loses-digits", strings.Join(sd, ","))
			default:
				fail("did:service-member-not-preserved:"+sd[0], strings.Join(sd, ",")+" "+string(b))
			}
		}

		for i, c := range coq {
			tr.Put(&hx.Record{Kind: kind + "-service", Case: rec.Case, Oracle: "ok", Coq: c, Class: rec.Class + fmt.Sprint(i), Dist: []string{"did:service"}})
		}

		// parsing the output yields an equal object, and serialising it is stable
		d2, err := did.ParseDocument(b)
		if err != nil {
			fail("did:reparse-fails", err.Error())
			return
		}

		b2, _ := d2.JSONBytes()
		if o2, _ := parseJ(b2); !jequal(o2, out) {
			fail("did:reparse-differs", string(b2))
			return
		}

		if rec.Oracle == "ok" && !looseEqual(dd, d2) {
			fail("did:reparsed-object-differs", fmt.Sprintf("%+v\nvs\n%+v", dd, d2))
		}
	}()

	tr.Put(rec)
}
