package main

import (
	"encoding/hex"
	"fmt"

	"github.com/btcsuite/btcutil/base58"

	"github.com/hyperledger/aries-framework-go/component/kmscrypto/doc/util/fingerprint"

	"verifharness/hx"
)

func coqBytes(b []byte) string {
	it := make([]string, len(b))
	for i, x := range b {
		it[i] = fmt.Sprintf("%d", x)
	}

	return "[" + joinSemi(it) + "]%N"
}

func joinSemi(it []string) string {
	out := ""

	for i, s := range it {
		if i > 0 {
			out += "; "
		}

		out += s
	}

	return out
}

// ---------- fingerprints ----------

func runFP(kind string, code uint64, keyHex, note string) {
	key, _ := hex.DecodeString(keyHex)
	rec := &hx.Record{Kind: kind, Case: caseDesc{Kind: "fp", Code: code, Key: keyHex, Note: note}, Oracle: "ok",
		Class: fmt.Sprintf("fp:%x:%d", code, len(key)), Dist: []string{"fp", fmt.Sprintf("fp:code=0x%x", code)}}

	func() {
		defer func() {
			if p := recover(); p != nil {
				rec.Oracle, rec.Sig, rec.Detail = "fail", "panic:fingerprint", fmt.Sprint(p)
			}
		}()

		fp := fingerprint.KeyFingerprint(code, key)
		if len(fp) < 1 || fp[0] != 'z' {
			rec.Oracle, rec.Sig, rec.Detail = "fail", "fingerprint-not-multibase-z", fp
			return
		}

		mc := base58.Decode(fp[1:])
		// the base58 layer is a parameter of the model: its round trip is checked here
		if base58.Encode(mc) != fp[1:] {
			rec.Oracle, rec.Sig, rec.Detail = "fail", "base58-roundtrip", fp
			return
		}

		k2, c2, err := fingerprint.PubKeyFromFingerprint(fp)
		dec := "None"

		if err == nil {
			dec = fmt.Sprintf("(Some (%s, %d%%N))", coqBytes(k2), c2)
		}

		didKey, _ := fingerprint.CreateDIDKeyByCode(code, key)
		k3, err3 := fingerprint.PubKeyFromDIDKey(didKey)
		dk := "None"

		if err3 == nil {
			dk = "(Some " + coqBytes(k3) + ")"
		}

		rec.Coq = fmt.Sprintf("CFP %d%%N %s %s %s %s", code, coqBytes(key), coqBytes(mc), dec, dk)
		rec.Observed = map[string]interface{}{"fingerprint": fp, "decoded": hex.EncodeToString(k2), "code": c2, "err": fmt.Sprint(err), "didkey_err": fmt.Sprint(err3)}

		// direct oracle: the identifier decodes back to the same key (for G1G2 the documented G2 part)
		want := key
		if code == fingerprint.BLS12381g1g2PubKeyMultiCodec && len(key) == 48+96 {
			want = key[48:]
		}

		supported := false

		for _, c := range []uint64{fingerprint.X25519PubKeyMultiCodec, fingerprint.ED25519PubKeyMultiCodec, fingerprint.BLS12381g2PubKeyMultiCodec,
			fingerprint.BLS12381g1g2PubKeyMultiCodec, fingerprint.P256PubKeyMultiCodec, fingerprint.P384PubKeyMultiCodec, fingerprint.P521PubKeyMultiCodec} {
			if c == code {
				supported = true
			}
		}

		if code >= 1<<63 {
			// a ten-byte varint: PubKeyFromFingerprint refuses codes longer than nine bytes
			if err == nil {
				rec.Oracle, rec.Sig, rec.Detail = "fail", "fingerprint-ten-byte-code-accepted", fp
			}

			rec.Trivial = true

			return
		}

		if code == fingerprint.BLS12381g1g2PubKeyMultiCodec && len(key) != 48+96 {
			if err == nil {
				rec.Oracle, rec.Sig, rec.Detail = "fail", "fingerprint-g1g2-wrong-length-accepted", fp
			}

			rec.Trivial = true

			return
		}

		if err != nil || c2 != code || hex.EncodeToString(k2) != hex.EncodeToString(want) {
			rec.Oracle, rec.Sig, rec.Detail = "fail", "fingerprint-does-not-decode-to-key", fmt.Sprintf("%s -> %x,%x,%v", fp, k2, c2, err)
			return
		}

		if supported && (err3 != nil || hex.EncodeToString(k3) != hex.EncodeToString(want)) {
			rec.Oracle, rec.Sig, rec.Detail = "fail", "didkey-does-not-decode-to-key", fmt.Sprintf("%s -> %x,%v", didKey, k3, err3)
			return
		}

		if !supported && err3 == nil {
			rec.Oracle, rec.Sig, rec.Detail = "fail", "didkey-unknown-code-accepted", didKey
		}
	}()

	tr.Put(rec)
}

func genFP(r *hx.Rng, scale int) {
	type kt struct {
		code uint64
		lens []int
	}

	kts := []kt{
		{fingerprint.X25519PubKeyMultiCodec, []int{32}},
		{fingerprint.ED25519PubKeyMultiCodec, []int{32}},
		{fingerprint.BLS12381g2PubKeyMultiCodec, []int{96}},
		{fingerprint.BLS12381g1g2PubKeyMultiCodec, []int{144, 143, 96}},
		{fingerprint.P256PubKeyMultiCodec, []int{33}},
		{fingerprint.P384PubKeyMultiCodec, []int{49}},
		{fingerprint.P521PubKeyMultiCodec, []int{67}},
		{0xe7, []int{33}},      // secp256k1: not in the table
		{0x01, []int{0, 1, 5}}, // one-byte code
		{0x7f, []int{3}},       // largest one-byte varint
		{0x80, []int{3}},       // smallest two-byte varint
		{0x3fff, []int{2}},     // largest two-byte varint
		{0x4000, []int{2}},     // three bytes
		{1 << 62, []int{4}},    // nine bytes
		{1<<64 - 1, []int{4}},  // ten bytes
	}

	for _, k := range kts {
		for _, n := range k.lens {
			for i := 0; i < 6*scale; i++ {
				key := r.Bytes(n)
				if i == 0 {
					key = make([]byte, n) // leading zero bytes (base58 leading '1's)
				}

				if i == 1 && n > 0 {
					key[0] = 0xff
				}

				runFP("fingerprint", k.code, hex.EncodeToString(key), "")
			}
		}
	}
}
