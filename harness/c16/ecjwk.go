package main

// EC keys as JWK on EVERY curve the jwk package handles (the NIST curves and secp256k1), public and private:
// coordinates and the private scalar with leading zero bytes (k*G scan), through MarshalJSON / UnmarshalJSON, and as
// publicKeyJwk of a DID document (built with the constructor and given as JSON).

import (
	"crypto/ecdsa"
	"crypto/elliptic"
	"encoding/base64"
	"encoding/hex"
	"encoding/json"
	"fmt"
	"math/big"

	"github.com/btcsuite/btcd/btcec"

	"github.com/hyperledger/aries-framework-go/component/kmscrypto/doc/jose/jwk"
	"github.com/hyperledger/aries-framework-go/component/kmscrypto/doc/jose/jwk/jwksupport"
	"github.com/hyperledger/aries-framework-go/component/models/did"

	"verifharness/hx"
)

type jwkCurve struct {
	name  string // crv member
	curve elliptic.Curve
	size  int
}

func jwkCurves() []jwkCurve {
	return []jwkCurve{{"P-256", elliptic.P256(), 32}, {"P-384", elliptic.P384(), 48}, {"P-521", elliptic.P521(), 66},
		{"secp256k1", btcec.S256(), 32}}
}

func jwkCurveByName(n string) *jwkCurve {
	for _, c := range jwkCurves() {
		if c.name == n {
			return &c
		}
	}

	return nil
}

// runECJWK: the key pair (scalar, scalar*G) of one curve.  note = "<crv>"; key = hex of the scalar.
func runECJWK(kind, crv, scalarHex string) {
	rec := &hx.Record{Kind: kind, Case: caseDesc{Kind: "ecjwk", Note: crv, Key: scalarHex}, Oracle: "ok",
		Dist: []string{"ecjwk", "ecjwk:crv=" + crv}}

	fail := func(sig, detail string) {
		if rec.Oracle == "ok" {
			rec.Oracle, rec.Sig, rec.Detail = "fail", sig, detail
		}
	}

	ci := jwkCurveByName(crv)
	sc, err := hex.DecodeString(scalarHex)

	if ci == nil || err != nil || len(sc) == 0 {
		rec.Trivial, rec.Class = true, "ecjwk-bad-case"
		tr.Put(rec)

		return
	}

	d := new(big.Int).SetBytes(sc)
	x, y := ci.curve.ScalarBaseMult(sc)
	pub := &ecdsa.PublicKey{Curve: ci.curve, X: x, Y: y}
	priv := &ecdsa.PrivateKey{PublicKey: *pub, D: d}
	shortX, shortY, shortD := len(x.Bytes()) < ci.size, len(y.Bytes()) < ci.size, len(d.Bytes()) < ci.size

	rec.Class = fmt.Sprintf("ecjwk:%s:shortx=%v:shorty=%v:shortd=%v", crv, shortX, shortY, shortD)
	rec.Dist = append(rec.Dist, fmt.Sprintf("ecjwk:leading-zero-x=%v", shortX), fmt.Sprintf("ecjwk:leading-zero-y=%v", shortY))

	var coq []string

	func() {
		defer func() {
			if p := recover(); p != nil {
				fail("panic:ecjwk", fmt.Sprint(p))
			}
		}()

		// through the JWK codec: public key, then private key
		for _, form := range []string{"public", "private"} {
			var key interface{} = pub
			if form == "private" {
				key = priv
			}

			j := &jwk.JWK{}
			j.Key = key

			jb, e := j.MarshalJSON()
			if e != nil {
				fail("ecjwk:marshal-"+form, e.Error())
				return
			}

			var m map[string]string

			_ = json.Unmarshal(jb, &m)

			if m["crv"] != crv || m["kty"] != "EC" {
				fail("ecjwk:crv-or-kty-"+form, string(jb))
			}

			var j2 jwk.JWK
			if e = j2.UnmarshalJSON(jb); e != nil {
				fail("ecjwk:own-output-refused-"+form, e.Error()+" "+string(jb))
				return
			}

			var x2, y2, d2 *big.Int

			switch k := j2.Key.(type) {
			case *ecdsa.PublicKey:
				x2, y2 = k.X, k.Y
			case *ecdsa.PrivateKey:
				x2, y2, d2 = k.X, k.Y, k.D
			}

			if x2 == nil || x2.Cmp(x) != 0 || y2.Cmp(y) != 0 || (form == "private") != (d2 != nil) || (d2 != nil && d2.Cmp(d) != 0) {
				fail("ecjwk:other-key-"+form, string(jb))
			}

			jb2, e := j2.MarshalJSON()
			if e != nil || !jequalBytes(jb, jb2) {
				fail("ecjwk:second-round-differs-"+form, string(jb)+" vs "+string(jb2))
			}

			coq = append(coq, fmt.Sprintf("CECJ %d%%nat (%s)%%Z (%s)%%Z %s %s", ci.size, x.String(), y.String(), hx.CoqString(m["x"]), hx.CoqString(m["y"])))

			if form == "private" {
				coq = append(coq, fmt.Sprintf("CECD %d%%nat (%s)%%Z %s", ci.size, d.String(), hx.CoqString(m["d"])))
			}
		}

		// as publicKeyJwk of a DID document built with the constructor
		j, e := jwksupport.JWKFromKey(pub)
		if e != nil {
			fail("ecjwk:from-key", e.Error())
			return
		}

		vm, e := did.NewVerificationMethodFromJWK("did:ex:123#k1", "JsonWebKey2020", "did:ex:123", j)
		if e != nil {
			fail("ecjwk:vm-from-jwk", e.Error())
			return
		}

		doc := &did.Doc{Context: "https://www.w3.org/ns/did/v1", ID: "did:ex:123", VerificationMethod: []did.VerificationMethod{*vm}}

		b, e := doc.JSONBytes()
		if e != nil {
			fail("ecjwk:did-marshal", e.Error())
			return
		}

		d2, e := did.ParseDocument(b)
		if e != nil {
			fail("ecjwk:did-own-output-refused", e.Error()+" "+string(b))
			return
		}

		if len(d2.VerificationMethod) != 1 || d2.VerificationMethod[0].JSONWebKey() == nil {
			fail("ecjwk:did-method-lost", string(b))
			return
		}

		if k, ok := d2.VerificationMethod[0].JSONWebKey().Key.(*ecdsa.PublicKey); !ok || k.X.Cmp(x) != 0 || k.Y.Cmp(y) != 0 {
			fail("ecjwk:did-other-key", string(b))
		}

		rec.Observed = map[string]string{"did": string(b)}
	}()

	for i, c := range coq {
		tr.Put(&hx.Record{Kind: kind + "-coordinates", Case: rec.Case, Oracle: "ok", Coq: c, Class: rec.Class + fmt.Sprint(i), Dist: []string{"jwk-ec-coordinates"}})
	}

	tr.Put(rec)
}

func jequalBytes(a, b []byte) bool {
	x, e1 := parseJ(a)
	y, e2 := parseJ(b)

	return e1 == nil && e2 == nil && jequal(x, y)
}

// ecJWKDoc: the key given as JSON inside a DID document (fixed-width coordinates written by the harness, not by the
// code under test), through the ordinary DID round trip and its model.
func ecJWKDoc(ci jwkCurve, x, y *big.Int, embedded bool) *J {
	enc := func(v *big.Int) string {
		b := make([]byte, ci.size)
		v.FillBytes(b)

		return base64.RawURLEncoding.EncodeToString(b)
	}

	vm := obj(kv("id", str("did:ex:123#k1")), kv("type", str("JsonWebKey2020")), kv("controller", str("did:ex:123")),
		kv("publicKeyJwk", obj(kv("kty", str("EC")), kv("crv", str(ci.name)), kv("x", str(enc(x))), kv("y", str(enc(y))))))
	d := obj(kv("@context", arr(str("https://www.w3.org/ns/did/v1"))), kv("id", str("did:ex:123")))

	if embedded {
		d.O = append(d.O, kv("verificationMethod", arr(obj(kv("id", str("did:ex:123#k0")), kv("type", str("Ed25519VerificationKey2018")),
			kv("controller", str("did:ex:123")), kv("publicKeyBase58", str("3mJr7AoUXx2Wqd9aFaP4nQ6b1yT3kqNu7tb1eXgP6aVH"))))),
			kv("keyAgreement", arr(vm)))
	} else {
		d.O = append(d.O, kv("verificationMethod", arr(vm)), kv("authentication", arr(str("#k1"))))
	}

	return d
}

func genECJWKs(r *hx.Rng, scale int) {
	for _, ci := range jwkCurves() {
		found := 0
		limit := map[int]int{32: 2600, 48: 1500, 66: 700}[ci.size] * scale

		// k*G for k = 1, 2, ...: every key whose X or Y has a leading zero byte (the scalar k itself is short too)
		for k := int64(1); k <= int64(limit) && found < 12*scale; k++ {
			sc := big.NewInt(k).Bytes()
			x, y := ci.curve.ScalarBaseMult(sc)
			short := len(x.Bytes()) < ci.size || len(y.Bytes()) < ci.size

			if short || k <= 3 {
				if short {
					found++
				}

				runECJWK("ecjwk-scan", ci.name, hex.EncodeToString(sc))
				runDID("ecjwk-scan-did", ecJWKDoc(ci, x, y, found%2 == 0), fmt.Sprintf("%s k=%d", ci.name, k))
			}
		}

		for i := 0; i < 10*scale; i++ {
			sc := r.Bytes(ci.size - 1)
			if sc[0] == 0 {
				sc[0] = 1
			}

			runECJWK("ecjwk-random", ci.name, hex.EncodeToString(sc))
		}
	}
}
