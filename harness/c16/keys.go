package main

import (
	"crypto/ecdsa"
	"crypto/ed25519"
	"crypto/elliptic"
	"crypto/rsa"
	"crypto/sha256"
	"encoding/base64"
	"encoding/hex"
	"encoding/json"
	"encoding/pem"
	"fmt"
	"math/big"
	"os"
	"path/filepath"
	"regexp"
	"sort"
	"strings"
	"unicode/utf8"

	"github.com/btcsuite/btcd/btcec"
	"github.com/btcsuite/btcutil/base58"
	"github.com/multiformats/go-multibase"

	"github.com/hyperledger/aries-framework-go/component/kmscrypto/crypto/primitive/bbs12381g2pub"
	"github.com/hyperledger/aries-framework-go/component/kmscrypto/doc/jose/jwk"
	"github.com/hyperledger/aries-framework-go/component/kmscrypto/doc/jose/jwk/jwksupport"
	"github.com/hyperledger/aries-framework-go/component/models/did"

	"verifharness/hx"
)

// verification method types: those the translator found in /repo (coq/gen/Gen_C16.v, regenerated on every run)
// together with the types of the W3C DID specification registries.
var registryVMTypes = []string{
	"Ed25519VerificationKey2018", "Ed25519VerificationKey2020", "X25519KeyAgreementKey2019", "X25519KeyAgreementKey2020",
	"JsonWebKey2020", "EcdsaSecp256k1VerificationKey2019", "Bls12381G1Key2020", "Bls12381G2Key2020", "RsaVerificationKey2018",
	"GpgVerificationKey2020", "SchnorrSecp256k1VerificationKey2019", "Multikey",
}

var vmTypes = loadVMTypes()

func loadVMTypes() []string {
	set := map[string]bool{}
	for _, t := range registryVMTypes {
		set[t] = true
	}

	root := os.Getenv("VERIF_ROOT")
	if root == "" {
		root = "/verif"
	}

	if b, err := os.ReadFile(filepath.Join(root, "coq/gen/Gen_C16.v")); err == nil { //nolint:gosec
		if m := regexp.MustCompile(`(?s)Definition vm_types : list string :=\s*\[(.*?)\]\.`).FindSubmatch(b); m != nil {
			for _, q := range regexp.MustCompile(`"([^"]+)"`).FindAllSubmatch(m[1], -1) {
				set[string(q[1])] = true
			}
		}
	}

	var l []string
	for t := range set {
		l = append(l, t)
	}

	sort.Strings(l)

	return l
}

// members of a JWK registered by RFC 7517/7518/8037 (others are custom)
var jwkRegistered = map[string]bool{"kty": true, "use": true, "key_ops": true, "alg": true, "kid": true, "x5u": true, "x5c": true,
	"x5t": true, "x5t#S256": true, "crv": true, "x": true, "y": true, "d": true, "n": true, "e": true, "k": true}

// every prefix the multibase library can encode
var multibasePrefixes = supportedMultibase()

func supportedMultibase() []multibase.Encoding {
	var l []multibase.Encoding

	for _, e := range []multibase.Encoding{multibase.Base58BTC, multibase.Base16, multibase.Base16Upper, multibase.Base64url, multibase.Base64,
		multibase.Base64pad, multibase.Base64urlPad, multibase.Base32, multibase.Base32Upper, multibase.Base32pad, multibase.Base32padUpper,
		multibase.Base32hex, multibase.Base32hexUpper, multibase.Base32hexPad, multibase.Base32hexPadUpper, multibase.Base36,
		multibase.Base36Upper, multibase.Base58Flickr, multibase.Base10, multibase.Base8, multibase.Base2} {
		if s, err := multibase.Encode(e, []byte{1, 2, 3}); err == nil {
			if _, b, err2 := multibase.Decode(s); err2 == nil && len(b) == 3 {
				l = append(l, e)
			}
		}
	}

	return l
}

// test keys of every type the jwk package handles
type testKey struct {
	name string
	pub  interface{}
	raw  []byte // raw public key bytes where the type has such a form
	jwk  *J     // the JWK as the jwk package writes it
}

var testKeys = makeTestKeys()

func mustJWKJSON(j *jwk.JWK, err error) *J {
	if err != nil {
		panic(err)
	}

	b, err := j.MarshalJSON()
	if err != nil {
		panic(err)
	}

	x, err := parseJ(b)
	if err != nil {
		panic(err)
	}

	return x
}

func makeTestKeys() []testKey {
	var ks []testKey

	seed := func(i int) []byte { h := sha256.Sum256([]byte(fmt.Sprintf("c16-key-%d", i))); return h[:] }

	for i := 0; i < 2; i++ {
		pub := ed25519.NewKeyFromSeed(seed(i)).Public().(ed25519.PublicKey) //nolint:forcetypeassert
		ks = append(ks, testKey{"Ed25519", pub, pub, mustJWKJSON(jwksupport.JWKFromKey(pub))})

		xk := seed(10 + i)
		ks = append(ks, testKey{"X25519", xk, xk, mustJWKJSON(jwksupport.JWKFromX25519Key(xk))})
	}

	for _, c := range []elliptic.Curve{elliptic.P256(), elliptic.P384(), elliptic.P521()} {
		x, y := c.ScalarBaseMult(seed(20))
		pub := &ecdsa.PublicKey{Curve: c, X: x, Y: y}
		ks = append(ks, testKey{c.Params().Name, pub, elliptic.Marshal(c, x, y), mustJWKJSON(jwksupport.JWKFromKey(pub))})
	}

	_, sp := btcec.PrivKeyFromBytes(btcec.S256(), seed(30))
	spub := sp.ToECDSA()
	ks = append(ks, testKey{"secp256k1", spub, sp.SerializeCompressed(), mustJWKJSON(jwksupport.JWKFromKey(spub))})

	bpub, _, err := bbs12381g2pub.GenerateKeyPair(sha256.New, seed(40))
	if err != nil {
		panic(err)
	}

	bb, _ := bpub.Marshal()
	ks = append(ks, testKey{"BLS12381_G2", bpub, bb, mustJWKJSON(jwksupport.JWKFromKey(bpub))})

	// a fixed RSA public key (modulus from two fixed primes is not needed: any odd modulus of the right size parses)
	n, _ := new(big.Int).SetString("c4f8e9e15dcadf2b96c763d981006a644ffb4415030a16ed1283883340f2aa0e2be2be8fa60150b9046965837c3e7d151b7de237ebb957c20663898250703b3f", 16)
	rpub := &rsa.PublicKey{N: new(big.Int).Lsh(n, 1536).Add(new(big.Int).Lsh(n, 1536), big.NewInt(1)), E: 65537}
	ks = append(ks, testKey{"RSA", rpub, nil, mustJWKJSON(jwksupport.JWKFromKey(rpub))})

	return ks
}

// jwkWithMembers: the JWK of a test key with a random choice of optional members; extras: also key_ops and custom members.
func jwkWithMembers(r *hx.Rng, k testKey, extras bool) *J {
	j := k.jwk.clone()

	if r.Bool() {
		j.set("use", str([]string{"sig", "enc"}[r.Intn(2)]))
	}

	if r.Bool() {
		j.set("kid", str(fmt.Sprintf("key-%d", r.Intn(9))))
	}

	if r.Intn(3) == 0 {
		alg := map[string]string{"Ed25519": "EdDSA", "X25519": "ECDH-ES", "P-256": "ES256", "P-384": "ES384", "P-521": "ES512",
			"secp256k1": "ES256K", "BLS12381_G2": "BBS+", "RSA": "RS256"}[k.name]
		j.set("alg", str(alg))
	}

	if extras {
		switch r.Intn(3) {
		case 0:
			j.set("key_ops", arr(str("verify")))
		case 1:
			j.set("customMember", []*J{num(1), str("v"), obj(kv("a", arr()))}[r.Intn(3)])
		default:
			j.set("key_ops", arr(str("verify"), str("deriveKey")))
			j.set("ext", boolean(true))
		}
	}

	shuffle(r, j.O)

	return j
}

// randKeyMaterial: type and key member(s) of a verification method, every type x every key-encoding member.
// modelled: the Coq model describes this encoding (base58, multibase z, JWK).
func randKeyMaterial(r *hx.Rng, jwkExtras, exotic bool) ([]KV, bool) {
	ty := vmTypes[r.Intn(len(vmTypes))]
	k := testKeys[r.Intn(len(testKeys))]

	enc := []int{0, 1, 2, 6, 6}[r.Intn(5)]
	if exotic {
		enc = 3 + r.Intn(3)
	}

	if k.raw == nil || jwkExtras {
		enc = 6
	}

	switch enc {
	case 0, 1:
		return []KV{kv("type", str(ty)), kv("publicKeyBase58", str(base58.Encode(k.raw)))}, true
	case 2:
		return []KV{kv("type", str(ty)), kv("publicKeyMultibase", str("z"+base58.Encode(k.raw)))}, true
	case 3:
		s, err := multibase.Encode(multibasePrefixes[r.Intn(len(multibasePrefixes))], k.raw)
		if err != nil {
			panic(err)
		}

		return []KV{kv("type", str(ty)), kv("publicKeyMultibase", str(s))}, strings.HasPrefix(s, "z")
	case 4:
		return []KV{kv("type", str(ty)), kv("publicKeyHex", str(hex.EncodeToString(k.raw)))}, false
	case 5:
		p := pem.EncodeToMemory(&pem.Block{Type: "PUBLIC KEY", Bytes: k.raw})
		return []KV{kv("type", str(ty)), kv("publicKeyPem", str(string(p)))}, false
	default:
		if r.Intn(3) > 0 {
			ty = "JsonWebKey2020"
		}

		return []KV{kv("type", str(ty)), kv("publicKeyJwk", jwkWithMembers(r, k, jwkExtras))}, true
	}
}

// ---------- JWK codec, standalone ----------

func runJWK(kind string, in *J, note string) {
	rec := &hx.Record{Kind: kind, Case: caseDesc{Kind: "jwk", Doc: []byte(in.JSON()), Note: note}, Oracle: "ok", Dist: []string{"jwk"}}

	fail := func(sig, detail string) {
		if rec.Oracle == "ok" {
			rec.Oracle, rec.Sig, rec.Detail = "fail", sig, detail
		}
	}

	func() {
		defer func() {
			if p := recover(); p != nil {
				fail("panic:jwk", fmt.Sprint(p))
			}
		}()

		kty, crv := "", ""
		if v := in.get("kty"); v != nil {
			kty = v.S
		}

		if v := in.get("crv"); v != nil {
			crv = v.S
		}

		var members []string
		for _, m := range in.O {
			if m.K != "kty" && m.K != "crv" && m.K != "x" && m.K != "y" && m.K != "n" && m.K != "e" {
				members = append(members, m.K)
			}
		}

		sort.Strings(members)
		rec.Class = "jwk:" + kty + ":" + crv + ":" + strings.Join(members, ",")
		rec.Dist = append(rec.Dist, "jwk:"+kty+"/"+crv)

		var j jwk.JWK
		if err := j.UnmarshalJSON([]byte(in.JSON())); err != nil {
			fail("jwk:unmarshal", err.Error())
			return
		}

		b, err := j.MarshalJSON()
		if err != nil {
			fail("jwk:marshal", err.Error())
			return
		}

		out, err := parseJ(b)
		if err != nil || !utf8.Valid(b) {
			fail("jwk:output-not-json", string(b))
			return
		}

		rec.Observed = map[string]string{"out": string(b)}

		if in.coqable() && out.coqable() {
			rec.Coq = "CJWK " + coqObj(in.O) + " " + coqObj(out.O)
		}

		var dropped, other []string

		for _, m := range in.O {
			switch o := out.get(m.K); {
			case o == nil && (m.K == "key_ops" || !jwkRegistered[m.K]):
				dropped = append(dropped, m.K)
			case o == nil:
				other = append(other, "lost:"+m.K)
			case !jequal(m.V, o):
				other = append(other, "changed:"+m.K)
			}
		}

		for _, m := range out.O {
			if in.get(m.K) == nil {
				other = append(other, "invented:"+m.K)
			}
		}

		// and the key itself survives a second round
		var j2 jwk.JWK
		if err := j2.UnmarshalJSON(b); err != nil {
			other = append(other, "reparse:"+err.Error())
		} else if b2, _ := j2.MarshalJSON(); string(b2) != string(b) {
			other = append(other, "reparse-differs")
		}

		switch {
		case len(other) > 0:
			fail("jwk:member-not-preserved:"+other[0], strings.Join(other, ",")+" "+string(b))
		case len(dropped) > 0:
			fail("jwk:key_ops-or-custom-member-dropped", strings.Join(dropped, ","))
		}
	}()

	tr.Put(rec)
}

func genJWKs(r *hx.Rng, scale int) {
	for _, k := range testKeys {
		for i := 0; i < 8*scale; i++ {
			j := jwkWithMembers(r, k, i%4 == 3)

			if i%4 == 2 && k.name != "X25519" && k.name != "secp256k1" && k.name != "BLS12381_G2" {
				// certificate thumbprints (go-jose checks their size)
				j.set("x5t", str(base64.RawURLEncoding.EncodeToString(r.Bytes(20))))
				j.set("x5t#S256", str(base64.RawURLEncoding.EncodeToString(r.Bytes(32))))
			}

			runJWK("jwk", j, "")
		}
	}
}

// ---------- verification methods built by the constructors ----------

func runConstructed(kind, how, ty string) {
	rec := &hx.Record{Kind: kind, Case: caseDesc{Kind: "didbuilt", Note: how, Key: ty}, Oracle: "ok", Class: "didbuilt:" + how + ":" + ty,
		Dist: []string{"didbuilt", "didbuilt:" + strings.SplitN(how, ":", 2)[0]}}

	fail := func(sig, detail string) {
		if rec.Oracle == "ok" {
			rec.Oracle, rec.Sig, rec.Detail = "fail", sig, detail
		}
	}

	func() {
		defer func() {
			if p := recover(); p != nil {
				fail("panic:didbuilt", fmt.Sprint(p))
			}
		}()

		const id = didID + "#k1"

		k := testKeys[0] // Ed25519

		var vm *did.VerificationMethod

		parts := strings.SplitN(how, ":", 2)

		switch parts[0] {
		case "bytes":
			vm = did.NewVerificationMethodFromBytes(id, ty, didID, k.raw)
		case "multibase":
			vm = did.NewVerificationMethodFromBytesWithMultibase(id, ty, didID, k.raw, multibase.Encoding(parts[1][0]))
		case "jwk":
			var j jwk.JWK
			if err := j.UnmarshalJSON([]byte(k.jwk.JSON())); err != nil {
				panic(err)
			}

			var err error

			vm, err = did.NewVerificationMethodFromJWK(id, ty, didID, &j)
			if err != nil {
				fail("didbuilt:from-jwk", err.Error())
				return
			}
		default: // a struct literal
			vm = &did.VerificationMethod{ID: id, Type: ty, Controller: didID, Value: k.raw}
		}

		doc := &did.Doc{Context: []string{"https://www.w3.org/ns/did/v1"}, ID: didID, VerificationMethod: []did.VerificationMethod{*vm},
			Authentication:  []did.Verification{*did.NewReferencedVerification(vm, did.Authentication)},
			AssertionMethod: []did.Verification{*did.NewEmbeddedVerification(vm, did.AssertionMethod)}}

		b, err := doc.JSONBytes()
		if err != nil {
			fail("didbuilt:marshal", err.Error())
			return
		}

		rec.Observed = map[string]string{"out": fmt.Sprintf("%q", b)}

		garbled := ""

		if !utf8.Valid(b) || !json.Valid(b) {
			garbled = "output is not valid UTF-8 JSON"
		} else if d2, e := did.ParseDocument(b); e != nil {
			garbled = "reparse: " + e.Error()
		} else {
			for _, m := range []did.VerificationMethod{d2.VerificationMethod[0], d2.AssertionMethod[0].VerificationMethod, d2.Authentication[0].VerificationMethod} {
				if m.Type != ty || m.ID != id {
					garbled = "type or id changed: " + m.Type + " " + m.ID
				}

				want := k.raw
				if parts[0] == "jwk" {
					want, _ = vm.JSONWebKey().PublicKeyBytes()
				}

				if hex.EncodeToString(m.Value) != hex.EncodeToString(want) {
					garbled = fmt.Sprintf("key bytes changed: %x (%d bytes) instead of %x", m.Value, len(m.Value), want)
				}
			}
		}

		if garbled != "" {
			if parts[0] == "literal" && ty == "Ed25519VerificationKey2020" {
				fail("did:literal-ed25519-2020-method-garbled", garbled)
			} else {
				fail("didbuilt:key-not-preserved:"+parts[0], garbled)
			}
		}
	}()

	tr.Put(rec)
}

func genConstructed(r *hx.Rng) {
	_ = r

	for _, ty := range vmTypes {
		runConstructed("did-constructed", "bytes", ty)
		runConstructed("did-constructed", "literal", ty)
		runConstructed("did-constructed", "jwk", ty)

		for _, e := range multibasePrefixes {
			runConstructed("did-constructed", "multibase:"+string(rune(e)), ty)
		}
	}
}
