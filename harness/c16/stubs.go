package main

import "verifharness/hx"

func runJWT(kind string, d *J, minimize bool, note string) {}
func randJWTVC(r *hx.Rng) *J                               { return obj() }
func runDID(kind string, d *J, note string)                {}
func randDID(r *hx.Rng) *J                                 { return obj() }
func runDIDKey(kind, key, note string)                     {}
