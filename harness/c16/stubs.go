package main

import (
	"fmt"
	"strings"

	"github.com/hyperledger/aries-framework-go/component/models/did"

	"verifharness/hx"
)

func runDIDKey(kind, key, note string) {}

const didID = "did:ex:123"

var svcTyped = []string{"id", "type", "serviceEndpoint", "recipientKeys", "routingKeys", "priority"}

// randDID: a DID document with services carrying custom properties, keys in base58, relationships referenced
// (absolute and relative) and embedded.
func randDID(r *hx.Rng) *J {
	f := feat{big: r.Intn(25) == 0}
	d := obj(kv("@context", []*J{str("https://www.w3.org/ns/did/v1"), arr(str("https://www.w3.org/ns/did/v1"))}[r.Intn(2)]), kv("id", str(didID)))
	key := "3mJr7AoUXx2Wqd9aFaP4nQ6b1yT3kqNu7tb1eXgP6aVH"
	vm := func(id string) *J {
		return obj(kv("id", str(id)), kv("type", str("Ed25519VerificationKey2018")), kv("controller", str(didID)), kv("publicKeyBase58", str(key)))
	}

	d.O = append(d.O, kv("verificationMethod", arr(vm(didID+"#k1"), vm("#k2"))))

	if r.Bool() {
		d.O = append(d.O, kv("authentication", arr(str(didID+"#k1"), str("#k2"), vm(didID+"#k3"))))
	}

	if r.Bool() {
		d.O = append(d.O, kv("keyAgreement", arr(vm("#k4"))))
	}

	n := 1 + r.Intn(3)
	svcs := arr()

	for i := 0; i < n; i++ {
		s := obj(kv("id", str([]string{didID + "#s", "#s"}[r.Intn(2)]+fmt.Sprint(i))),
			kv("type", []*J{str("LinkedDomains"), arr(str("A"), str("B")), str("did-communication")}[r.Intn(3)]))

		switch r.Intn(3) {
		case 0:
			s.O = append(s.O, kv("serviceEndpoint", str("https://ex.com/ep")))
		case 1:
			s.O = append(s.O, kv("serviceEndpoint", obj(kv("origins", arr(str("https://ex.com"))))))
		default:
			s.O = append(s.O, kv("serviceEndpoint", arr(obj(kv("uri", str("https://ex.com/v2")), kv("accept", arr(str("didcomm/v2")))))))
		}

		if r.Bool() {
			s.O = append(s.O, kv("priority", num(int64(r.Intn(3)))))
		}

		if r.Intn(3) == 0 {
			s.O = append(s.O, kv("recipientKeys", arr(str(didID+"#k1"))), kv("routingKeys", arr(str("did:ex:r#1"))))
		}

		for _, m := range randMembers(r, 3, r.Intn(4), &f) {
			if s.get(m.K) == nil {
				s.O = append(s.O, m)
			}
		}

		if r.Intn(3) == 0 {
			s.O = append(s.O, kv("accept", arr(str("didcomm/aip2;env=rfc19"))))
		}

		shuffle(r, s.O)
		svcs.A = append(svcs.A, s)
	}

	d.O = append(d.O, kv("service", svcs))
	shuffle(r, d.O)

	return d
}

func runDID(kind string, doc *J, note string) {
	data := []byte(doc.JSON())
	rec := &hx.Record{Kind: kind, Case: caseDesc{Kind: "did", Doc: data, Note: note}, Oracle: "ok", Dist: []string{"did"}}

	fail := func(sig, detail string) {
		if rec.Oracle == "ok" {
			rec.Oracle, rec.Sig, rec.Detail = "fail", sig, detail
		}
	}

	func() {
		defer func() {
			if p := recover(); p != nil {
				fail("panic:did", fmt.Sprint(p))
			}
		}()

		dd, err := did.ParseDocument(data)
		if err != nil {
			rec.Trivial, rec.Class = true, "did-error:"+firstWords(err.Error())
			rec.Observed = map[string]string{"error": err.Error()}

			return
		}

		b, err := dd.JSONBytes()
		if err != nil {
			fail("did:marshal", err.Error())
			return
		}

		out, _ := parseJ(b)
		rec.Observed = map[string]string{"out": string(b)}
		rec.Class = "did:" + shapeOf(doc)

		// re-parse
		d2, err := did.ParseDocument(b)
		if err != nil {
			fail("did:reparse-fails", err.Error())
			return
		}

		b2, _ := d2.JSONBytes()
		if o2, _ := parseJ(b2); !jequal(o2, out) {
			fail("did:reparse-differs", string(b2))
			return
		}

		// defined members
		for _, k := range []string{"id", "@context", "verificationMethod"} {
			if !jequal(doc.get(k), out.get(k)) {
				fail("did:member-changed:"+k, string(b))
			}
		}

		abs := func(s string) string {
			if strings.HasPrefix(s, "#") {
				return didID + s
			}

			return s
		}

		for _, k := range []string{"authentication", "keyAgreement"} {
			a, o := doc.get(k), out.get(k)
			if a == nil {
				continue
			}

			if o == nil || len(o.A) != len(a.A) {
				fail("did:relationship-count:"+k, string(b))
				continue
			}

			for i := range a.A {
				if a.A[i].K != o.A[i].K || a.A[i].K == jStr && abs(a.A[i].S) != abs(o.A[i].S) || a.A[i].K == jObj && !jequal(a.A[i], o.A[i]) {
					fail("did:relationship-changed:"+k, string(b))
				}
			}
		}

		ins, outs := doc.get("service"), out.get("service")
		if outs == nil || len(outs.A) != len(ins.A) {
			fail("did:service-count", string(b))
			return
		}

		var coq []string

		for i, s := range ins.A {
			o := outs.A[i]
			typed := obj()

			for _, m := range o.O {
				for _, k := range svcTyped {
					if m.K == k {
						typed.O = append(typed.O, m)
					}
				}
			}

			if s.coqable() && o.coqable() {
				coq = append(coq, fmt.Sprintf("CSVC %s %s %s", coqObj(typed.O), coqObj(s.O), coqObj(o.O)))
			}

			diffs := diffMembers(s, o)
			if len(diffs) == 0 {
				continue
			}

			if s.hasInexact() && len(diffMembers(s.roundNumbers(), o.roundNumbers())) == 0 {
				fail("did:number-above-2^53-loses-digits", strings.Join(diffs, ","))
			} else {
				fail("did:service-member-not-preserved:"+diffs[0], strings.Join(diffs, ",")+" "+string(b))
			}
		}

		// one Coq case per record: the first service (the others are written as extra records)
		for i, c := range coq {
			if i == 0 {
				rec.Coq = c
				continue
			}

			tr.Put(&hx.Record{Kind: kind + "-service", Case: rec.Case, Oracle: "ok", Coq: c, Class: rec.Class + fmt.Sprint(i), Dist: []string{"did:service"}})
		}
	}()

	tr.Put(rec)
}
