package main

import (
	"bytes"
	"encoding/json"
	"fmt"
	"math/big"
	"sort"
	"strings"

	"verifharness/hx"
)

// J is a JSON tree that keeps member order and exact integers.
type J struct {
	K int // 0 null, 1 bool, 2 integer, 3 string, 4 array, 5 object, 6 non-integer number (literal in S)
	B bool
	N *big.Int
	S string
	A []*J
	O []KV
}

// KV is one object member.
type KV struct {
	K string
	V *J
}

const (
	jNull = iota
	jBool
	jNum
	jStr
	jArr
	jObj
	jFrac
)

func null() *J             { return &J{K: jNull} }
func boolean(b bool) *J    { return &J{K: jBool, B: b} }
func num(n int64) *J       { return &J{K: jNum, N: big.NewInt(n)} }
func str(s string) *J      { return &J{K: jStr, S: s} }
func arr(a ...*J) *J       { return &J{K: jArr, A: append([]*J{}, a...)} }
func obj(kv ...KV) *J      { return &J{K: jObj, O: append([]KV{}, kv...)} }
func kv(k string, v *J) KV { return KV{k, v} }
func bignum(s string) *J {
	n, ok := new(big.Int).SetString(s, 10)
	if !ok {
		panic(s)
	}

	return &J{K: jNum, N: n}
}

func (j *J) get(k string) *J {
	if j == nil || j.K != jObj {
		return nil
	}

	for _, m := range j.O {
		if m.K == k {
			return m.V
		}
	}

	return nil
}

func (j *J) set(k string, v *J) {
	for i := range j.O {
		if j.O[i].K == k {
			j.O[i].V = v
			return
		}
	}

	j.O = append(j.O, KV{k, v})
}

func (j *J) del(k string) {
	for i := range j.O {
		if j.O[i].K == k {
			j.O = append(j.O[:i:i], j.O[i+1:]...)
			return
		}
	}
}

func (j *J) clone() *J {
	if j == nil {
		return nil
	}

	c := *j

	if j.N != nil {
		c.N = new(big.Int).Set(j.N)
	}

	c.A = nil
	for _, x := range j.A {
		c.A = append(c.A, x.clone())
	}

	c.O = nil
	for _, m := range j.O {
		c.O = append(c.O, KV{m.K, m.V.clone()})
	}

	return &c
}

// JSON serialises the tree.
func (j *J) JSON() string {
	var b strings.Builder
	j.write(&b)

	return b.String()
}

func (j *J) write(b *strings.Builder) {
	switch j.K {
	case jNull:
		b.WriteString("null")
	case jBool:
		if j.B {
			b.WriteString("true")
		} else {
			b.WriteString("false")
		}
	case jNum:
		b.WriteString(j.N.String())
	case jFrac:
		b.WriteString(j.S)
	case jStr:
		q, _ := json.Marshal(j.S)
		b.Write(q)
	case jArr:
		b.WriteByte('[')

		for i, x := range j.A {
			if i > 0 {
				b.WriteByte(',')
			}

			x.write(b)
		}

		b.WriteByte(']')
	case jObj:
		b.WriteByte('{')

		for i, m := range j.O {
			if i > 0 {
				b.WriteByte(',')
			}

			q, _ := json.Marshal(m.K)
			b.Write(q)
			b.WriteByte(':')
			m.V.write(b)
		}

		b.WriteByte('}')
	}
}

// coqable: no non-integer numbers, printable ASCII strings only.
func (j *J) coqable() bool {
	ok := func(s string) bool {
		for _, c := range []byte(s) {
			if c < 32 || c >= 127 {
				return false
			}
		}

		return true
	}

	switch j.K {
	case jFrac:
		return false
	case jStr:
		return ok(j.S)
	case jArr:
		for _, x := range j.A {
			if !x.coqable() {
				return false
			}
		}
	case jObj:
		for _, m := range j.O {
			if !ok(m.K) || !m.V.coqable() {
				return false
			}
		}
	}

	return true
}

// Coq prints the tree as a term of common/Json.v.
func (j *J) Coq() string {
	switch j.K {
	case jNull:
		return "JNull"
	case jBool:
		return "(JBool " + hx.CoqBool(j.B) + ")"
	case jNum:
		return "(JNum (" + j.N.String() + ")%Z)"
	case jStr:
		return "(JStr " + hx.CoqString(j.S) + ")"
	case jArr:
		it := make([]string, len(j.A))
		for i, x := range j.A {
			it[i] = x.Coq()
		}

		return "(JArr " + hx.CoqList(it) + ")"
	case jObj:
		return "(JObj " + coqObj(j.O) + ")"
	}

	return "JNull"
}

func coqObj(o []KV) string {
	it := make([]string, len(o))
	for i, m := range o {
		it[i] = "(" + hx.CoqString(m.K) + ", " + m.V.Coq() + ")"
	}

	return hx.CoqList(it)
}

// parseJ parses JSON text keeping order and exact numbers.
func parseJ(data []byte) (*J, error) {
	d := json.NewDecoder(bytes.NewReader(data))
	d.UseNumber()

	j, err := readJ(d)
	if err != nil {
		return nil, err
	}

	if d.More() {
		return nil, fmt.Errorf("trailing data")
	}

	return j, nil
}

func readJ(d *json.Decoder) (*J, error) {
	t, err := d.Token()
	if err != nil {
		return nil, err
	}

	switch v := t.(type) {
	case nil:
		return null(), nil
	case bool:
		return boolean(v), nil
	case string:
		return str(v), nil
	case json.Number:
		r, ok := new(big.Rat).SetString(string(v))
		if ok && r.IsInt() {
			return &J{K: jNum, N: new(big.Int).Set(r.Num())}, nil
		}

		return &J{K: jFrac, S: string(v)}, nil
	case json.Delim:
		switch v {
		case '[':
			a := &J{K: jArr}

			for d.More() {
				x, e := readJ(d)
				if e != nil {
					return nil, e
				}

				a.A = append(a.A, x)
			}

			_, err = d.Token()

			return a, err
		case '{':
			o := &J{K: jObj}

			for d.More() {
				kt, e := d.Token()
				if e != nil {
					return nil, e
				}

				x, e := readJ(d)
				if e != nil {
					return nil, e
				}

				o.O = append(o.O, KV{kt.(string), x}) //nolint:forcetypeassert
			}

			_, err = d.Token()

			return o, err
		}
	}

	return nil, fmt.Errorf("unexpected token %v", t)
}

// canon renders the tree with sorted members (for equality of JSON values as maps).
func (j *J) canon() string {
	c := j.clone()
	c.sortKeys()

	return c.JSON()
}

func (j *J) sortKeys() {
	for _, x := range j.A {
		x.sortKeys()
	}

	for _, m := range j.O {
		m.V.sortKeys()
	}

	sort.SliceStable(j.O, func(a, b int) bool { return j.O[a].K < j.O[b].K })
}

func jequal(a, b *J) bool {
	if a == nil || b == nil {
		return a == b
	}

	return a.canon() == b.canon()
}

var two53 = new(big.Int).Lsh(big.NewInt(1), 53)

// hasInexact: the tree holds an integer of magnitude above 2^53.
func (j *J) hasInexact() bool {
	switch j.K {
	case jNum:
		// above 2^53 even a representable integer is printed with the shortest digits that read back to the same
		// float64 (2^55 becomes 36028797018963970)
		return new(big.Int).Abs(j.N).Cmp(two53) > 0
	case jArr:
		for _, x := range j.A {
			if x.hasInexact() {
				return true
			}
		}
	case jObj:
		for _, m := range j.O {
			if m.V.hasInexact() {
				return true
			}
		}
	}

	return false
}

// roundNumbers replaces every integer by its float64 rounding (used to see whether precision is the only difference).
func (j *J) roundNumbers() *J {
	c := j.clone()
	c.round()

	return c
}

func (j *J) round() {
	switch j.K {
	case jNum:
		f, _ := new(big.Float).SetInt(j.N).Float64()
		n, _ := new(big.Float).SetFloat64(f).Int(nil)
		j.N = n
	case jFrac:
		// non-integer literals are compared by value
		r, ok := new(big.Rat).SetString(j.S)
		if ok {
			f, _ := r.Float64()
			j.S = fmt.Sprintf("%v", f)
		}
	case jArr:
		for _, x := range j.A {
			x.round()
		}
	case jObj:
		for _, m := range j.O {
			m.V.round()
		}
	}
}
