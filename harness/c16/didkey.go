package main

import (
	"bytes"
	"crypto/ecdsa"
	"crypto/ed25519"
	"crypto/elliptic"
	"crypto/x509"
	"encoding/base64"
	"encoding/hex"
	"encoding/json"
	"fmt"
	"math/big"

	"github.com/btcsuite/btcutil/base58"

	"github.com/hyperledger/aries-framework-go/component/kmscrypto/doc/jose/jwk"
	"github.com/hyperledger/aries-framework-go/component/kmscrypto/doc/jose/jwk/jwksupport"
	"github.com/hyperledger/aries-framework-go/component/kmscrypto/doc/util/fingerprint"
	"github.com/hyperledger/aries-framework-go/component/kmscrypto/doc/util/kmsdidkey"
	"github.com/hyperledger/aries-framework-go/component/models/did"
	vdrkey "github.com/hyperledger/aries-framework-go/component/vdr/key"
	cryptoapi "github.com/hyperledger/aries-framework-go/spi/crypto"
	"github.com/hyperledger/aries-framework-go/spi/kms"

	"verifharness/hx"
)

type curveInfo struct {
	code        uint64
	curve       elliptic.Curve
	size        int
	ecdh, p1363 kms.KeyType
	der         kms.KeyType
}

func curveOf(code uint64) *curveInfo {
	switch code {
	case fingerprint.P256PubKeyMultiCodec:
		return &curveInfo{code, elliptic.P256(), 32, kms.NISTP256ECDHKWType, kms.ECDSAP256TypeIEEEP1363, kms.ECDSAP256TypeDER}
	case fingerprint.P384PubKeyMultiCodec:
		return &curveInfo{code, elliptic.P384(), 48, kms.NISTP384ECDHKWType, kms.ECDSAP384TypeIEEEP1363, kms.ECDSAP384TypeDER}
	case fingerprint.P521PubKeyMultiCodec:
		return &curveInfo{code, elliptic.P521(), 66, kms.NISTP521ECDHKWType, kms.ECDSAP521TypeIEEEP1363, kms.ECDSAP521TypeDER}
	}

	return nil
}

// runDIDKey: one public key through every key-identifier codec and back.
// keyHex: raw key (OKP, BLS) or the SEC1 uncompressed point 04||X||Y (NIST curves).
func runDIDKeyCode(kind string, code uint64, keyHex, note string) {
	key, _ := hex.DecodeString(keyHex)
	rec := &hx.Record{Kind: kind, Case: caseDesc{Kind: "didkey", Code: code, Key: keyHex, Note: note}, Oracle: "ok",
		Dist: []string{"didkey", fmt.Sprintf("didkey:code=0x%x", code)}}

	fail := func(sig, detail string) {
		if rec.Oracle == "ok" {
			rec.Oracle, rec.Sig, rec.Detail = "fail", sig, detail
		}
	}

	func() {
		defer func() {
			if p := recover(); p != nil {
				fail("panic:didkey", fmt.Sprint(p))
			}
		}()

		if ci := curveOf(code); ci != nil {
			ecKey(rec, fail, ci, key)
			return
		}

		okpKey(rec, fail, code, key)
	}()

	tr.Put(rec)
}

func mcOf(didKey string) []byte {
	const p = "did:key:z"
	if len(didKey) < len(p) {
		return nil
	}

	return base58.Decode(didKey[len(p):])
}

func ecKey(rec *hx.Record, fail func(string, string), ci *curveInfo, point []byte) {
	x, y := elliptic.Unmarshal(ci.curve, point)
	if x == nil {
		rec.Trivial, rec.Class = true, "didkey-not-on-curve"
		return
	}

	pub := &ecdsa.PublicKey{Curve: ci.curve, X: x, Y: y}
	shortX, shortY := len(x.Bytes()) < ci.size, len(y.Bytes()) < ci.size
	rec.Class = fmt.Sprintf("didkey:%x:shortx=%v:shorty=%v:odd=%d", ci.code, shortX, shortY, y.Bit(0))
	rec.Dist = append(rec.Dist, fmt.Sprintf("didkey:leading-zero-x=%v", shortX), fmt.Sprintf("didkey:leading-zero-y=%v", shortY))

	same := func(what string, x2, y2 *big.Int) bool {
		if x2 == nil || y2 == nil || x2.Cmp(x) != 0 || y2.Cmp(y) != 0 {
			fail("didkey:"+what+"-other-key", fmt.Sprintf("%s: got (%v,%v) want (%v,%v)", what, x2, y2, x, y))
			return false
		}

		return true
	}

	// JWK codec: fixed-width coordinates, and back
	j, err := jwksupport.JWKFromKey(pub)
	if err != nil {
		fail("jwk:from-key", err.Error())
		return
	}

	jb, err := j.MarshalJSON()
	if err != nil {
		fail("jwk:marshal", err.Error())
		return
	}

	var jm map[string]string

	_ = json.Unmarshal(jb, &jm)

	for _, c := range []string{"x", "y"} {
		b, e := base64.RawURLEncoding.DecodeString(jm[c])
		if e != nil || len(b) != ci.size {
			fail("jwk:coordinate-not-fixed-width", fmt.Sprintf("%s: %d bytes, want %d (%s)", c, len(b), ci.size, jb))
		}
	}

	var j2 jwk.JWK
	if err = j2.UnmarshalJSON(jb); err != nil {
		fail("jwk:unmarshal", err.Error())
		return
	}

	if k2, ok := j2.Key.(*ecdsa.PublicKey); !ok || !same("jwk", k2.X, k2.Y) {
		fail("jwk:other-key", string(jb))
		return
	}

	if pb, e := j2.PublicKeyBytes(); e != nil || !bytes.Equal(pb, elliptic.Marshal(ci.curve, x, y)) {
		fail("jwk:public-key-bytes", fmt.Sprintf("%x %v", pb, e))
	}

	// did:key from the JWK, and the one the did:key method defines
	comp := elliptic.MarshalCompressed(ci.curve, x, y)
	didKey, keyID, err := fingerprint.CreateDIDKeyByJwk(j)

	if err != nil {
		fail("didkey:create-by-jwk", err.Error())
		return
	}

	mc := mcOf(didKey)
	rec.Coq = fmt.Sprintf("CEC %d%%N %d%%nat (%s)%%Z (%s)%%Z %s", ci.code, ci.size, x.String(), y.String(), coqBytes(mc))
	tr.Put(&hx.Record{Kind: rec.Kind + "-jwk", Case: rec.Case, Oracle: "ok", Class: rec.Class + ":jwk", Dist: []string{"jwk-ec-coordinates"},
		Coq: fmt.Sprintf("CECJ %d%%nat (%s)%%Z (%s)%%Z %s %s", ci.size, x.String(), y.String(), hx.CoqString(jm["x"]), hx.CoqString(jm["y"]))})
	rec.Observed = map[string]interface{}{"didkey": didKey}

	expDID, expKID := fingerprint.CreateDIDKeyByCode(ci.code, comp)
	if didKey != expDID || keyID != expKID {
		fail("didkey:jwk-form-differs-from-compressed-point-form", didKey+" vs "+expDID)
	}

	raw, err := fingerprint.PubKeyFromDIDKey(didKey)
	if err != nil {
		fail("didkey:decode", err.Error())
		return
	}

	if len(raw) != 1+ci.size {
		fail("didkey:point-not-fixed-width", fmt.Sprintf("%d bytes, want %d", len(raw), 1+ci.size))
	}

	x2, y2 := elliptic.UnmarshalCompressed(ci.curve, raw)
	same("didkey-decode", x2, y2)

	// vdr/key Create and Read
	v := vdrkey.New()

	vm, err := did.NewVerificationMethodFromJWK("", "JsonWebKey2020", "", j)
	if err != nil {
		fail("vdrkey:vm-from-jwk", err.Error())
		return
	}

	dr, err := v.Create(&did.Doc{VerificationMethod: []did.VerificationMethod{*vm}})
	if err != nil {
		fail("vdrkey:create", err.Error())
		return
	}

	if dr.DIDDocument.ID != didKey || dr.DIDDocument.VerificationMethod[0].ID != keyID {
		fail("vdrkey:create-other-id", dr.DIDDocument.ID+" vs "+didKey)
	}

	rd, err := v.Read(didKey)
	if err != nil {
		fail("vdrkey:read", err.Error())
		return
	}

	rvm := rd.DIDDocument.VerificationMethod[0]
	if rj := rvm.JSONWebKey(); rj == nil {
		fail("vdrkey:read-no-jwk", didKey)
	} else if rk, ok := rj.Key.(*ecdsa.PublicKey); !ok || !same("vdrkey-read", rk.X, rk.Y) {
		fail("vdrkey:read-other-key", didKey)
	}

	if !bytes.Equal(rvm.Value, elliptic.Marshal(ci.curve, x, y)) || rvm.ID != keyID {
		fail("vdrkey:read-other-value", fmt.Sprintf("%x %s", rvm.Value, rvm.ID))
	}

	// the read document survives its own serialisation
	if b, e := rd.DIDDocument.JSONBytes(); e != nil {
		fail("vdrkey:doc-marshal", e.Error())
	} else if d2, e2 := did.ParseDocument(b); e2 != nil {
		fail("vdrkey:doc-reparse", e2.Error())
	} else if k2, ok := d2.VerificationMethod[0].JSONWebKey().Key.(*ecdsa.PublicKey); !ok || !same("vdrkey-doc-reparse", k2.X, k2.Y) {
		fail("vdrkey:doc-reparse-other-key", string(b))
	}

	// kmsdidkey, every KMS export form of the key
	pkJSON, _ := json.Marshal(&cryptoapi.PublicKey{X: x.Bytes(), Y: y.Bytes(), Curve: ci.curve.Params().Name, Type: "EC"})
	der, _ := x509.MarshalPKIXPublicKey(pub)

	for _, f := range []struct {
		kt kms.KeyType
		b  []byte
	}{{ci.ecdh, pkJSON}, {ci.p1363, elliptic.Marshal(ci.curve, x, y)}, {ci.der, der}} {
		dk, e := kmsdidkey.BuildDIDKeyByKeyType(f.b, f.kt)
		if e != nil || dk != didKey {
			fail("kmsdidkey:build-differs:"+string(f.kt), fmt.Sprintf("%s %v vs %s", dk, e, didKey))
		}
	}

	pk, err := kmsdidkey.EncryptionPubKeyFromDIDKey(didKey)
	if err != nil {
		fail("kmsdidkey:decode", err.Error())
		return
	}

	same("kmsdidkey-decode", new(big.Int).SetBytes(pk.X), new(big.Int).SetBytes(pk.Y))
}

func okpKey(rec *hx.Record, fail func(string, string), code uint64, key []byte) {
	rec.Class = fmt.Sprintf("didkey:%x:lead0=%v", code, len(key) > 0 && key[0] == 0)

	var (
		j      *jwk.JWK
		err    error
		kt     kms.KeyType
		kmsKey = key
		vmType string
	)

	switch code {
	case fingerprint.ED25519PubKeyMultiCodec:
		j, err = jwksupport.JWKFromKey(ed25519.PublicKey(key))
		kt, vmType = kms.ED25519Type, "Ed25519VerificationKey2018"
	case fingerprint.X25519PubKeyMultiCodec:
		j, err = jwksupport.JWKFromX25519Key(key)
		kt = kms.X25519ECDHKWType
		kmsKey, _ = json.Marshal(&cryptoapi.PublicKey{X: key, Curve: "X25519", Type: "OKP"})
	case fingerprint.BLS12381g2PubKeyMultiCodec:
		kt, vmType = kms.BLS12381G2Type, "Bls12381G2Key2020"
	default:
		rec.Trivial = true
		return
	}

	if err != nil {
		fail("jwk:from-key", err.Error())
		return
	}

	didKey, keyID := fingerprint.CreateDIDKeyByCode(code, key)
	rec.Coq = fmt.Sprintf("CFP %d%%N %s %s (Some (%s, %d%%N)) (Some %s)", code, coqBytes(key), coqBytes(mcOf(didKey)), coqBytes(key), code, coqBytes(key))
	rec.Observed = map[string]interface{}{"didkey": didKey}

	if j != nil {
		jb, e := j.MarshalJSON()
		if e != nil {
			fail("jwk:marshal", e.Error())
			return
		}

		var j2 jwk.JWK
		if e = j2.UnmarshalJSON(jb); e != nil {
			fail("jwk:unmarshal", e.Error())
			return
		}

		if pb, e2 := j2.PublicKeyBytes(); e2 != nil || !bytes.Equal(pb, key) {
			fail("jwk:other-key", fmt.Sprintf("%x %v", pb, e2))
		}

		dj, kj, e := fingerprint.CreateDIDKeyByJwk(j)
		if e != nil || dj != didKey || kj != keyID {
			fail("didkey:jwk-form-differs", fmt.Sprintf("%s %v vs %s", dj, e, didKey))
		}
	}

	raw, err := fingerprint.PubKeyFromDIDKey(didKey)
	if err != nil || !bytes.Equal(raw, key) {
		fail("didkey:decode-other-key", fmt.Sprintf("%x %v", raw, err))
	}

	if dk, e := kmsdidkey.BuildDIDKeyByKeyType(kmsKey, kt); e != nil || dk != didKey {
		fail("kmsdidkey:build-differs:"+string(kt), fmt.Sprintf("%s %v vs %s", dk, e, didKey))
	}

	if code != fingerprint.BLS12381g2PubKeyMultiCodec {
		pk, e := kmsdidkey.EncryptionPubKeyFromDIDKey(didKey)
		if e != nil || !bytes.Equal(pk.X, key) {
			fail("kmsdidkey:decode-other-key", fmt.Sprintf("%v", e))
		}
	}

	if vmType == "" {
		return
	}

	v := vdrkey.New()

	dr, err := v.Create(&did.Doc{VerificationMethod: []did.VerificationMethod{{Type: vmType, Value: key}}})
	if err != nil {
		fail("vdrkey:create", err.Error())
		return
	}

	if dr.DIDDocument.ID != didKey || dr.DIDDocument.VerificationMethod[0].ID != keyID {
		fail("vdrkey:create-other-id", dr.DIDDocument.ID+" vs "+didKey)
	}

	rd, err := v.Read(didKey)
	if err != nil {
		fail("vdrkey:read", err.Error())
		return
	}

	if rvm := rd.DIDDocument.VerificationMethod[0]; !bytes.Equal(rvm.Value, key) || rvm.ID != keyID || rvm.Type != vmType {
		fail("vdrkey:read-other-key", fmt.Sprintf("%x %s %s", rvm.Value, rvm.ID, rvm.Type))
	}

	if b, e := rd.DIDDocument.JSONBytes(); e != nil {
		fail("vdrkey:doc-marshal", e.Error())
	} else if d2, e2 := did.ParseDocument(b); e2 != nil {
		fail("vdrkey:doc-reparse", e2.Error())
	} else if !bytes.Equal(d2.VerificationMethod[0].Value, key) || d2.ID != didKey {
		fail("vdrkey:doc-reparse-other-key", string(b))
	}
}

// genDIDKeys: for every key type of the multicodec table, random keys and constructed ones with leading zero bytes.
func genDIDKeys(r *hx.Rng, scale int) {
	for _, code := range []uint64{fingerprint.P256PubKeyMultiCodec, fingerprint.P384PubKeyMultiCodec, fingerprint.P521PubKeyMultiCodec} {
		ci := curveOf(code)
		found := 0
		limit := map[int]int{32: 2600, 48: 1500, 66: 700}[ci.size] * scale

		// k*G for k = 1, 2, ...: every key whose X or Y needs fewer bytes than the field (leading zero byte)
		for k := int64(1); k <= int64(limit); k++ {
			x, y := ci.curve.ScalarBaseMult(big.NewInt(k).Bytes())
			short := len(x.Bytes()) < ci.size || len(y.Bytes()) < ci.size

			if (short && found < 12*scale) || k <= 4 {
				if short {
					found++
				}

				runDIDKeyCode("didkey-scan", code, hex.EncodeToString(elliptic.Marshal(ci.curve, x, y)), fmt.Sprintf("k=%d", k))
			}
		}

		for i := 0; i < 25*scale; i++ {
			x, y := ci.curve.ScalarBaseMult(r.Bytes(ci.size - 1))
			runDIDKeyCode("didkey-random", code, hex.EncodeToString(elliptic.Marshal(ci.curve, x, y)), "")
		}
	}

	for i := 0; i < 30*scale; i++ {
		seed := r.Bytes(32)
		if i == 0 {
			seed = make([]byte, 32)
		}

		pub := ed25519.NewKeyFromSeed(seed).Public().(ed25519.PublicKey) //nolint:forcetypeassert
		runDIDKeyCode("didkey-random", fingerprint.ED25519PubKeyMultiCodec, hex.EncodeToString(pub), "")

		xk := r.Bytes(32)
		if i%5 == 0 {
			xk[0] = 0
		}

		runDIDKeyCode("didkey-random", fingerprint.X25519PubKeyMultiCodec, hex.EncodeToString(xk), "")

		bk := r.Bytes(96)
		if i%5 == 0 {
			bk[0], bk[1] = 0, 0
		}

		runDIDKeyCode("didkey-random", fingerprint.BLS12381g2PubKeyMultiCodec, hex.EncodeToString(bk), "")
	}
}
