package main

import (
	"crypto/ed25519"
	"encoding/json"
	"fmt"
	"sort"
	"strings"

	afgojwt "github.com/hyperledger/aries-framework-go/component/models/jwt"
	"github.com/hyperledger/aries-framework-go/component/models/verifiable"

	"verifharness/hx"
)

// Presentations enclosing credentials in every form: JSON-LD objects, JWT strings, SD-JWT in combined format
// (issuance and presentation spelling, 0..n disclosures), typed *Credential values with and without JWT, mixed arrays.

type encCase struct {
	Kind  string          `json:"kind"` // vpenc
	Mode  string          `json:"mode"` // json | typed
	Doc   json.RawMessage `json:"doc"`
	Creds []string        `json:"creds,omitempty"` // typed mode: the credentials handed to NewPresentation (JSON or JWT text)
	Note  string          `json:"note,omitempty"`
}

var encKey = ed25519.NewKeyFromSeed([]byte("c16-verif-fixed-seed-32-bytes!!!"))

var encSigner = afgojwt.NewEd25519Signer(encKey)

type rawSigner struct{}

func (rawSigner) Sign(data []byte) ([]byte, error) { return ed25519.Sign(encKey, data), nil }
func (rawSigner) Alg() string                      { return "EdDSA" }

const encKID = "did:ex:issuer#key-1"

// sdParts: issuer-signed JWT, sorted disclosures, holder binding of a combined-format string.
func sdParts(s string) (string, []string, string) {
	p := strings.Split(s, "~")
	if len(p) == 1 {
		return p[0], nil, ""
	}

	last := p[len(p)-1]
	ds := p[1:]
	hb := ""

	if last == "" || afgojwt.IsJWS(last) {
		ds, hb = p[1:len(p)-1], last
	}

	ds = append([]string{}, ds...)
	sort.Strings(ds)

	return p[0], ds, hb
}

func samePartsStr(a, b string) bool {
	j1, d1, h1 := sdParts(a)
	j2, d2, h2 := sdParts(b)

	return j1 == j2 && h1 == h2 && strings.Join(d1, "~") == strings.Join(d2, "~")
}

// credSubjectDoc: a credential the JWT encodings are defined for, with n disclosable subject claims.
func credSubjectDoc(r *hx.Rng, n int) *J {
	f := feat{}
	sub := obj(kv("id", str("did:ex:s1")))

	for i := 0; i < n; i++ {
		sub.O = append(sub.O, kv(fmt.Sprintf("claim%d", i), []*J{str("v"), num(int64(r.Intn(100))), boolean(true), obj(kv("a", str("b")))}[r.Intn(4)]))
	}

	d := obj(kv("@context", arr(str(baseCtx))), kv("type", arr(str("VerifiableCredential"))), kv("id", str(fmt.Sprintf("urn:vc:%d", r.Intn(1000)))),
		kv("credentialSubject", sub), kv("issuanceDate", str("2020-01-01T00:00:00Z")))

	if r.Bool() {
		d.O = append(d.O, kv("issuer", str("did:ex:issuer")))
	} else {
		d.O = append(d.O, kv("issuer", obj(kv("id", str("did:ex:issuer")), kv("name", str("n")))))
	}

	for _, m := range randMembers(r, 2, r.Intn(3), &f) {
		if d.get(m.K) == nil && m.K != "holder" && m.K != "verifiableCredential" {
			d.O = append(d.O, m)
		}
	}

	return d
}

// encForms: the credential as JSON text, JWT, SD-JWT (issuance spelling), SD-JWT (presentation spelling).
func encForm(r *hx.Rng, form int) (text string, isString bool) {
	n := r.Intn(4)
	doc := credSubjectDoc(r, n)

	vc, err := verifiable.ParseCredential([]byte(doc.JSON()), vcOpts(false)...)
	if err != nil {
		panic(err)
	}

	switch form {
	case 0:
		return doc.JSON(), false
	case 1:
		claims, e := vc.JWTClaims(r.Bool())
		if e != nil {
			panic(e)
		}

		s, e := claims.MarshalJWS(verifiable.EdDSA, rawSigner{}, encKID)
		if e != nil {
			panic(e)
		}

		return s, true
	default:
		s, e := vc.MakeSDJWT(encSigner, encKID)
		if e != nil {
			panic(e)
		}

		if form == 3 && !strings.HasSuffix(s, "~") {
			s += "~"
		}

		return s, true
	}
}

func randEnclosing(r *hx.Rng) encCase {
	k := []int{1, 1, 2, 3, 1}[r.Intn(5)]

	var texts []string

	var strs []bool

	for i := 0; i < k; i++ {
		t, isS := encForm(r, r.Intn(4))
		texts = append(texts, t)
		strs = append(strs, isS)
	}

	if r.Intn(3) == 0 {
		return encCase{Kind: "vpenc", Mode: "typed", Creds: texts}
	}

	d := obj(kv("@context", arr(str(baseCtx))), kv("type", str("VerifiablePresentation")), kv("holder", str("did:ex:holder")))
	l := arr()

	for i, t := range texts {
		if strs[i] {
			l.A = append(l.A, str(t))
		} else {
			j, _ := parseJ([]byte(t))
			l.A = append(l.A, j)
		}
	}

	if k == 1 && r.Bool() {
		d.O = append(d.O, kv("verifiableCredential", l.A[0]))
	} else {
		d.O = append(d.O, kv("verifiableCredential", l))
	}

	if r.Bool() {
		d.O = append(d.O, kv("x", num(int64(r.Intn(9)))))
	}

	shuffle(r, d.O)

	return encCase{Kind: "vpenc", Mode: "json", Doc: []byte(d.JSON())}
}

// credView: what an enclosed credential says, whatever Go type holds it.
type credView struct {
	Typed       bool     `json:"typed"`
	JWT         string   `json:"jwt,omitempty"`
	Alg         string   `json:"alg,omitempty"`
	Disclosures []string `json:"disclosures,omitempty"`
	Holder      string   `json:"holderBinding,omitempty"`
	Subject     string   `json:"subject,omitempty"` // subject with every disclosure applied
	JSON        string   `json:"json,omitempty"`
}

func viewOf(c interface{}) credView {
	vc, ok := c.(*verifiable.Credential)
	if !ok {
		b, _ := json.Marshal(c)
		j, _ := parseJ(b)

		return credView{JSON: j.canon()}
	}

	v := credView{Typed: true, JWT: vc.JWT, Alg: vc.SDJWTHashAlg, Holder: vc.SDHolderBinding}

	for _, d := range vc.SDJWTDisclosures {
		v.Disclosures = append(v.Disclosures, d.Disclosure)
	}

	sort.Strings(v.Disclosures)

	if vc.JWT == "" {
		b, _ := vc.MarshalJSON()
		j, _ := parseJ(b)
		v.JSON = j.canon()

		return v
	}

	if disp, err := vc.CreateDisplayCredential(verifiable.DisplayAllDisclosures()); err == nil {
		b, _ := json.Marshal(disp.Subject)
		j, _ := parseJ(b)
		v.Subject = j.canon()
	} else {
		v.Subject = "display error: " + err.Error()
	}

	return v
}

func vpParseOpts() []verifiable.PresentationOpt {
	return []verifiable.PresentationOpt{verifiable.WithPresDisabledProofCheck(), verifiable.WithDisabledJSONLDChecks(),
		verifiable.WithPresJSONLDDocumentLoader(loader)}
}

func runEnclosing(kind string, c encCase) {
	rec := &hx.Record{Kind: kind, Case: c, Oracle: "ok", Dist: []string{"vpenc", "vpenc:mode=" + c.Mode}}

	fail := func(sig, detail string) {
		if rec.Oracle == "ok" {
			rec.Oracle, rec.Sig, rec.Detail = "fail", sig, detail
		}
	}

	func() {
		defer func() {
			if p := recover(); p != nil {
				fail("panic:vpenc", fmt.Sprint(p))
			}
		}()

		var (
			vp1 *verifiable.Presentation
			in  *J
			err error
		)

		if c.Mode == "typed" {
			var creds []*verifiable.Credential

			for _, t := range c.Creds {
				vc, e := verifiable.ParseCredential([]byte(t), vcOpts(false)...)
				if e != nil {
					fail("vpenc:credential-refused", e.Error())
					return
				}

				creds = append(creds, vc)
			}

			vp1, err = verifiable.NewPresentation(verifiable.WithCredentials(creds...))
			if err != nil {
				fail("vpenc:new-presentation", err.Error())
				return
			}

			vp1.Holder = "did:ex:holder"
		} else {
			in, _ = parseJ(c.Doc)

			vp1, err = verifiable.ParsePresentation(c.Doc, vpParseOpts()...)
			if err != nil {
				rec.Trivial, rec.Class = true, "vpenc-error:"+firstWords(err.Error())
				rec.Observed = map[string]string{"error": err.Error()}

				return
			}
		}

		out1, err := vp1.MarshalJSON()
		if err != nil {
			fail("vpenc:marshal", err.Error())
			return
		}

		outJ, _ := parseJ(out1)

		vp2, err := verifiable.ParsePresentation(out1, vpParseOpts()...)
		if err != nil {
			fail("vpenc:reparse-fails", err.Error())
			return
		}

		var views1, views2 []credView

		for _, x := range vp1.Credentials() {
			views1 = append(views1, viewOf(x))
		}

		for _, x := range vp2.Credentials() {
			views2 = append(views2, viewOf(x))
		}

		rec.Observed = map[string]interface{}{"out": string(out1), "first": views1, "reparsed": views2}

		forms := []string{}
		for _, v := range views1 {
			switch {
			case !v.Typed:
				forms = append(forms, "object")
			case v.JWT == "":
				forms = append(forms, "typed-ld")
			case v.Alg != "":
				forms = append(forms, fmt.Sprintf("sdjwt%d", min(len(v.Disclosures), 3)))
			default:
				forms = append(forms, "jwt")
			}
		}

		rec.Class = "vpenc:" + c.Mode + ":" + strings.Join(forms, ",")
		for _, f := range forms {
			rec.Dist = append(rec.Dist, "vpenc:cred="+f)
		}

		// 1. the re-parsed presentation encloses the same credentials: same JWT, same disclosures, same disclosed claims
		if len(views1) != len(views2) {
			fail("vpenc:credential-count", fmt.Sprintf("%d vs %d", len(views1), len(views2)))
			return
		}

		for i := range views1 {
			a, b := views1[i], views2[i]

			if a.Typed && a.JWT == "" {
				// a typed JSON-LD credential comes back as its JSON object
				if b.Typed || a.JSON != b.JSON {
					fail("vpenc:ld-credential-differs", a.JSON+" vs "+b.JSON)
				}

				continue
			}

			ja, _ := json.Marshal(a)
			jb, _ := json.Marshal(b)

			if string(ja) != string(jb) {
				fail("vpenc:enclosed-credential-differs", string(ja)+" vs "+string(jb))
			}
		}

		// 2. member by member: the serialised entries are the enclosed credentials
		oc := outJ.get("verifiableCredential")
		if oc == nil || oc.K != jArr || len(oc.A) != len(views1) {
			fail("vpenc:output-credential-count", string(out1))
			return
		}

		var inCreds []*J

		if in != nil {
			inCreds = wrapArr(in.get("verifiableCredential")).A
		} else {
			for _, t := range c.Creds {
				if j, e := parseJ([]byte(t)); e == nil && j.K == jObj {
					inCreds = append(inCreds, j)
				} else {
					inCreds = append(inCreds, str(t))
				}
			}
		}

		for i, x := range inCreds {
			o := oc.A[i]

			switch {
			case x.K == jStr && (o.K != jStr || !samePartsStr(x.S, o.S)):
				fail("vpenc:credential-string-changed", x.S+" vs "+o.JSON())
			case x.K == jObj && c.Mode == "json" && !jequal(x, o):
				fail("vpenc:credential-object-changed", x.JSON()+" vs "+o.JSON())
			case x.K == jObj && c.Mode == "typed":
				if d := diffMembers(normVC(x), normVC(o)); len(d) > 0 {
					fail("vpenc:credential-object-changed", strings.Join(d, ","))
				}
			}
		}

		// 3. stable
		out2, _ := vp2.MarshalJSON()
		if o2, _ := parseJ(out2); !sameVPOut(outJ, o2) {
			fail("vpenc:reparse-differs", string(out2))
		}

		// the Coq case: input document, output, and which strings are JWS (with or without _sd_alg)
		if c.Mode == "json" && in.coqable() && outJ.coqable() {
			var env []string

			seen := map[string]bool{}

			for _, v := range views1 {
				if v.Typed && v.JWT != "" && !seen[v.JWT] {
					seen[v.JWT] = true
					env = append(env, "("+hx.CoqString(v.JWT)+", "+hx.CoqBool(v.Alg != "")+")")
				}
			}

			rec.Coq = "CVPE " + hx.CoqList(env) + " " + in.Coq() + " (Some " + outJ.Coq() + ")"
		}
	}()

	tr.Put(rec)
}

// sameVPOut: equal up to the order of disclosures inside SD-JWT strings.
func sameVPOut(a, b *J) bool {
	na, nb := a.clone(), b.clone()

	for _, x := range []*J{na, nb} {
		if l := x.get("verifiableCredential"); l != nil && l.K == jArr {
			for _, e := range l.A {
				if e.K == jStr {
					j, d, h := sdParts(e.S)
					e.S = j + "~" + strings.Join(d, "~") + "~" + h
				}
			}
		}
	}

	return jequal(na, nb)
}
