// c16: drives the real credential / presentation / DID document codecs, the JWT claim mapping and the key
// fingerprint codecs of /repo on generated documents and keys, and records what they did for comparison with the
// Coq model (coq/C16) plus a direct oracle (member-by-member preservation, re-parse equality).
package main

import (
	"encoding/json"
	"fmt"
	"os"
	"path/filepath"
	"reflect"
	"sort"
	"strings"
	"time"

	"github.com/hyperledger/aries-framework-go/component/models/ld/documentloader"
	"github.com/hyperledger/aries-framework-go/component/models/ld/testutil"
	"github.com/hyperledger/aries-framework-go/component/models/verifiable"

	"verifharness/hx"
)

type caseDesc struct {
	Kind     string          `json:"kind"` // vc | vcvalid | vp | jwt | did | fp | didkey | jwk
	Doc      json.RawMessage `json:"doc,omitempty"`
	Minimize bool            `json:"minimize,omitempty"`
	Code     uint64          `json:"code,omitempty"`
	Key      string          `json:"key,omitempty"` // hex
	Note     string          `json:"note,omitempty"`
}

var (
	tr     *hx.Trace
	loader = mustLoader()
)

func mustLoader() *documentloader.DocumentLoader {
	l, err := testutil.DocumentLoader()
	if err != nil {
		panic(err)
	}

	return l
}

// ---------- normal forms used by the direct oracle ----------

func lowerHas(names []string, k string) bool {
	for _, n := range names {
		if k != n && strings.EqualFold(k, n) {
			return true
		}
	}

	return false
}

var (
	vcKnown  = []string{"@context", "id", "type", "credentialSubject", "issuanceDate", "expirationDate", "proof", "credentialStatus", "issuer", "credentialSchema", "evidence", "termsOfUse", "refreshService", "jwt", "_sd_alg"}
	vpKnown  = []string{"@context", "id", "type", "verifiableCredential", "holder", "proof", "jwt"}
	idOnly   = []string{"id"}
	idAndTyp = []string{"id", "type"}
)

func objsOf(j *J) []*J {
	if j == nil {
		return nil
	}

	if j.K == jObj {
		return []*J{j}
	}

	var out []*J

	if j.K == jArr {
		for _, x := range j.A {
			if x.K == jObj {
				out = append(out, x)
			}
		}
	}

	return out
}

// hasCaseVariant: a member name that differs from a known one only by case, where a Go struct is decoded.
func vcHasCaseVariant(d *J) bool {
	chk := func(o *J, names []string) bool {
		for _, m := range o.O {
			if lowerHas(names, m.K) {
				return true
			}
		}

		return false
	}

	if chk(d, vcKnown) {
		return true
	}

	for _, s := range objsOf(d.get("credentialSubject")) {
		if chk(s, idOnly) {
			return true
		}
	}

	for _, s := range objsOf(d.get("issuer")) {
		if chk(s, idOnly) {
			return true
		}
	}

	for _, k := range []string{"credentialStatus", "credentialSchema", "termsOfUse", "refreshService"} {
		for _, s := range objsOf(d.get(k)) {
			if chk(s, idAndTyp) {
				return true
			}
		}
	}

	return false
}

func wrapArr(j *J) *J {
	if j.K == jArr {
		return j
	}

	return arr(j)
}

// normVC: the single/array forms the data model identifies.
func normVC(d *J) *J {
	c := d.clone()

	for _, k := range []string{"@context", "type"} {
		if v := c.get(k); v != nil && v.K == jStr {
			c.set(k, arr(v))
		}
	}

	if v := c.get("credentialSubject"); v != nil && v.K == jNull {
		// null: no subject
		c.del("credentialSubject")
	} else if v != nil {
		l := wrapArr(v)
		for i, x := range l.A {
			switch x.K {
			case jStr:
				l.A[i] = obj(kv("id", x))
			case jNull:
				l.A[i] = obj()
			}

			// an empty id says as much as no id
			if id := l.A[i].get("id"); id != nil && id.K == jStr && id.S == "" {
				l.A[i].del("id")
			}
		}

		c.set("credentialSubject", l)
	}

	if v := c.get("issuer"); v != nil {
		switch v.K {
		case jStr:
			v = obj(kv("id", v))
		case jNull:
			v = obj(kv("id", str("")))
		}

		if len(v.O) == 1 && v.get("id") != nil && v.get("id").K == jStr && v.get("id").S == "" {
			c.del("issuer")
		} else {
			c.set("issuer", v)
		}
	}

	for _, k := range []string{"proof", "termsOfUse", "refreshService", "credentialSchema", "verifiableCredential"} {
		v := c.get(k)
		if v == nil {
			continue
		}

		if v.K == jNull && k == "credentialSchema" {
			continue
		}

		l := wrapArr(v)

		if k != "proof" && k != "verifiableCredential" {
			for i, x := range l.A {
				if x.K == jNull {
					l.A[i] = obj()
				}
			}
		}

		if len(l.A) == 0 {
			c.del(k)
		} else {
			c.set(k, l)
		}
	}

	return c
}

// diffMembers lists the members of a that b lacks or holds with another value, and the members b adds.
func diffMembers(a, b *J) []string {
	var out []string

	for _, m := range a.O {
		v := b.get(m.K)
		if v == nil {
			out = append(out, "lost:"+m.K)
		} else if !jequal(m.V, v) {
			out = append(out, "changed:"+m.K)
		}
	}

	for _, m := range b.O {
		if a.get(m.K) == nil {
			out = append(out, "invented:"+m.K)
		}
	}

	sort.Strings(out)

	return out
}

// ---------- loose equality of parsed objects (nil == empty) ----------

func loose(a, b reflect.Value) bool {
	if !a.IsValid() || !b.IsValid() {
		return a.IsValid() == b.IsValid() || isEmpty(a) && isEmpty(b)
	}

	if a.Type() != b.Type() {
		return false
	}

	if a.Type() == reflect.TypeOf(time.Time{}) {
		if a.CanInterface() {
			return a.Interface().(time.Time).Equal(b.Interface().(time.Time)) //nolint:forcetypeassert
		}

		return true
	}

	switch a.Kind() {
	case reflect.Ptr, reflect.Interface:
		if a.IsNil() || b.IsNil() {
			return a.IsNil() == b.IsNil()
		}

		return loose(a.Elem(), b.Elem())
	case reflect.Slice, reflect.Array:
		if a.Len() != b.Len() {
			return false
		}

		for i := 0; i < a.Len(); i++ {
			if !loose(a.Index(i), b.Index(i)) {
				return false
			}
		}

		return true
	case reflect.Map:
		if a.Len() != b.Len() {
			return false
		}

		for _, k := range a.MapKeys() {
			bv := b.MapIndex(k)
			if !bv.IsValid() || !loose(a.MapIndex(k), bv) {
				return false
			}
		}

		return true
	case reflect.Struct:
		for i := 0; i < a.NumField(); i++ {
			if a.Type().Field(i).Name == "multibaseEncoding" {
				// how the key text was spelled, not what the method is: the key bytes are compared
				continue
			}

			if !loose(a.Field(i), b.Field(i)) {
				return false
			}
		}

		return true
	case reflect.String:
		return a.String() == b.String()
	case reflect.Bool:
		return a.Bool() == b.Bool()
	case reflect.Int, reflect.Int8, reflect.Int16, reflect.Int32, reflect.Int64:
		return a.Int() == b.Int()
	case reflect.Uint, reflect.Uint8, reflect.Uint16, reflect.Uint32, reflect.Uint64:
		return a.Uint() == b.Uint()
	case reflect.Float32, reflect.Float64:
		return a.Float() == b.Float()
	}

	return true
}

func isEmpty(v reflect.Value) bool {
	if !v.IsValid() {
		return true
	}

	switch v.Kind() {
	case reflect.Slice, reflect.Map:
		return v.Len() == 0
	case reflect.Ptr, reflect.Interface:
		return v.IsNil()
	}

	return false
}

func looseEqual(a, b interface{}) bool { return loose(reflect.ValueOf(a), reflect.ValueOf(b)) }

// ---------- credentials ----------

func vcOpts(validate bool) []verifiable.CredentialOpt {
	o := []verifiable.CredentialOpt{verifiable.WithDisabledProofCheck(), verifiable.WithJSONLDDocumentLoader(loader)}
	if !validate {
		o = append(o, verifiable.WithCredDisableValidation())
	}

	return o
}

type vcRun struct {
	err    error
	out    *J
	vc     *verifiable.Credential
	outRaw []byte
}

func doVC(data []byte, validate bool) (r vcRun) {
	defer func() {
		if p := recover(); p != nil {
			r.err = fmt.Errorf("PANIC: %v", p)
		}
	}()

	vc, err := verifiable.ParseCredential(data, vcOpts(validate)...)
	if err != nil {
		return vcRun{err: err}
	}

	b, err := vc.MarshalJSON()
	if err != nil {
		return vcRun{err: fmt.Errorf("marshal: %w", err)}
	}

	j, err := parseJ(b)
	if err != nil {
		return vcRun{err: fmt.Errorf("output is not JSON: %w", err)}
	}

	return vcRun{out: j, vc: vc, outRaw: b}
}

func classify(doc, out *J, norm func(*J) *J, caseVariant bool) (string, string) {
	diffs := diffMembers(norm(doc), norm(out))
	if len(diffs) == 0 {
		return "", ""
	}

	detail := strings.Join(diffs, ",")

	if caseVariant {
		return "case-variant-of-known-member", detail
	}

	// would the document be preserved if the suspected cause were absent?
	if j := doc.get("jwt"); j != nil && j.K == jStr && j.S != "" {
		if len(diffs) == 1 && diffs[0] == "lost:jwt" {
			return "custom-member-named-jwt-dropped", detail
		}
	}

	if doc.hasInexact() && len(diffMembers(norm(doc.roundNumbers()), norm(out.roundNumbers()))) == 0 {
		return "number-above-2^53-loses-digits", detail
	}

	return "member-not-preserved:" + diffs[0], detail
}

func runVC(kind string, doc *J, validate bool, note string) {
	data := []byte(doc.JSON())
	desc := caseDesc{Kind: "vc", Doc: data, Note: note}

	if validate {
		desc.Kind = "vcvalid"
	}

	rec := &hx.Record{Kind: kind, Case: desc, Oracle: "ok"}
	r := doVC(data, validate)

	dist := []string{"vc"}
	if validate {
		dist = append(dist, "vc:validated")
	}

	for _, k := range vcKnown {
		if v := doc.get(k); v != nil {
			form := []string{"null", "bool", "number", "string", "array", "object", "number"}[v.K]
			if v.K == jArr {
				form = fmt.Sprintf("array%d", min(len(v.A), 3))
			}

			dist = append(dist, "vc:"+k+"="+form)
		}
	}

	rec.Dist = dist

	if r.err != nil {
		if strings.HasPrefix(r.err.Error(), "PANIC") {
			rec.Oracle, rec.Sig, rec.Detail = "fail", "panic:vc", r.err.Error()
		}

		rec.Observed = map[string]string{"error": r.err.Error()}
		rec.Class = "vc-error:" + firstWords(r.err.Error())
		rec.Trivial = validate // a validation refusal says nothing about the codec

		if doc.coqable() && !validate {
			rec.Coq = "CVC " + doc.Coq() + " None"
		}

		tr.Put(rec)

		return
	}

	rec.Observed = map[string]string{"out": string(r.outRaw)}
	rec.Class = "vc:" + shapeOf(doc)

	if doc.coqable() && r.out.coqable() {
		rec.Coq = "CVC " + doc.Coq() + " (Some " + r.out.Coq() + ")"
	}

	// direct oracle 1: every member preserved (up to the single/array forms), nothing invented
	sig, detail := classify(doc, r.out, normVC, vcHasCaseVariant(doc))

	// direct oracle 2: parsing the output yields an equal object, and serialising is stable
	if sig == "" {
		r2 := doVC(r.outRaw, false)

		switch {
		case r2.err != nil:
			sig, detail = "reparse-fails", r2.err.Error()
		case !jequal(r2.out, r.out):
			sig, detail = "reparse-differs", string(r2.outRaw)
		case !looseEqual(r.vc, r2.vc):
			sig, detail = "reparsed-object-differs", fmt.Sprintf("%+v vs %+v", r.vc, r2.vc)
		}

		if sig != "" && vcHasCaseVariant(doc) {
			// same cause: the output is written with sorted member names, so another one of the case variants comes last
			sig = "case-variant-of-known-member"
		}
	}

	if sig != "" {
		rec.Oracle, rec.Sig, rec.Detail = "fail", sig, detail
	}

	tr.Put(rec)
}

func firstWords(s string) string {
	w := strings.Fields(s)
	if len(w) > 6 {
		w = w[:6]
	}

	return strings.Join(w, " ")
}

func shapeOf(d *J) string {
	var p []string

	for _, m := range d.O {
		s := m.K + ":" + fmt.Sprint(m.V.K)
		if m.V.K == jArr {
			s += fmt.Sprint(min(len(m.V.A), 3))
		}

		p = append(p, s)
	}

	sort.Strings(p)

	return strings.Join(p, ",")
}

// ---------- presentations ----------

func vpHasCaseVariant(d *J) bool {
	for _, m := range d.O {
		if lowerHas(vpKnown, m.K) {
			return true
		}
	}

	return false
}

type vpRun struct {
	err    error
	out    *J
	vp     *verifiable.Presentation
	outRaw []byte
}

func doVP(data []byte) (r vpRun) {
	defer func() {
		if p := recover(); p != nil {
			r.err = fmt.Errorf("PANIC: %v", p)
		}
	}()

	vp, err := verifiable.ParsePresentation(data, verifiable.WithPresDisabledProofCheck(), verifiable.WithDisabledJSONLDChecks(),
		verifiable.WithPresJSONLDDocumentLoader(loader))
	if err != nil {
		return vpRun{err: err}
	}

	b, err := vp.MarshalJSON()
	if err != nil {
		return vpRun{err: fmt.Errorf("marshal: %w", err)}
	}

	j, err := parseJ(b)
	if err != nil {
		return vpRun{err: err}
	}

	return vpRun{out: j, vp: vp, outRaw: b}
}

func runVP(kind string, doc *J, note string) {
	data := []byte(doc.JSON())
	rec := &hx.Record{Kind: kind, Case: caseDesc{Kind: "vp", Doc: data, Note: note}, Oracle: "ok"}
	r := doVP(data)

	dist := []string{"vp"}

	for _, k := range vpKnown {
		if v := doc.get(k); v != nil {
			form := []string{"null", "bool", "number", "string", "array", "object", "number"}[v.K]
			if v.K == jArr {
				form = fmt.Sprintf("array%d", min(len(v.A), 3))
			}

			dist = append(dist, "vp:"+k+"="+form)
		}
	}

	rec.Dist = dist

	if r.err != nil {
		if strings.HasPrefix(r.err.Error(), "PANIC") {
			rec.Oracle, rec.Sig, rec.Detail = "fail", "panic:vp", r.err.Error()
		}

		rec.Observed = map[string]string{"error": r.err.Error()}
		rec.Class = "vp-error:" + firstWords(r.err.Error())
		rec.Trivial = true // the base schema refused the document

		tr.Put(rec)

		return
	}

	rec.Observed = map[string]string{"out": string(r.outRaw)}
	rec.Class = "vp:" + shapeOf(doc)

	if doc.coqable() && r.out.coqable() {
		rec.Coq = "CVP " + doc.Coq() + " (Some " + r.out.Coq() + ")"
	}

	sig, detail := classify(doc, r.out, normVC, vpHasCaseVariant(doc))

	if sig == "" {
		r2 := doVP(r.outRaw)

		switch {
		case r2.err != nil:
			sig, detail = "reparse-fails", r2.err.Error()
		case !jequal(r2.out, r.out):
			sig, detail = "reparse-differs", string(r2.outRaw)
		case !looseEqual(r.vp, r2.vp):
			sig, detail = "reparsed-object-differs", fmt.Sprintf("%+v vs %+v", r.vp, r2.vp)
		}

		if sig != "" && vpHasCaseVariant(doc) {
			sig = "case-variant-of-known-member"
		}
	}

	if sig != "" {
		rec.Oracle, rec.Sig, rec.Detail = "fail", "vp:"+sig, detail
	}

	tr.Put(rec)
}

// ---------- driver ----------

func runCase(kind string, c caseDesc, raw []byte) {
	switch c.Kind {
	case "vc", "vcvalid":
		d, err := parseJ(c.Doc)
		if err != nil {
			panic(err)
		}

		runVC(kind, d, c.Kind == "vcvalid", c.Note)
	case "vp":
		d, err := parseJ(c.Doc)
		if err != nil {
			panic(err)
		}

		runVP(kind, d, c.Note)
	case "jwt":
		d, err := parseJ(c.Doc)
		if err != nil {
			panic(err)
		}

		runJWT(kind, d, c.Minimize, c.Note)
	case "did":
		d, err := parseJ(c.Doc)
		if err != nil {
			panic(err)
		}

		runDID(kind, d, c.Note)
	case "vpenc":
		var e encCase
		if raw != nil {
			_ = json.Unmarshal(raw, &e)
		}

		runEnclosing(kind, e)
	case "jwtmulti":
		d, err := parseJ(c.Doc)
		if err != nil {
			panic(err)
		}

		runJWTMultiSubject(kind, d)
	case "jwtvp":
		d, err := parseJ(c.Doc)
		if err != nil {
			panic(err)
		}

		var aud []string
		if c.Note != "" {
			aud = strings.Fields(c.Note)
		}

		runJWTVP(kind, d, aud, c.Minimize)
	case "didres":
		d, err := parseJ(c.Doc)
		if err != nil {
			panic(err)
		}

		runResolution(kind, d, c.Note)
	case "jwk":
		d, err := parseJ(c.Doc)
		if err != nil {
			panic(err)
		}

		runJWK(kind, d, c.Note)
	case "didbuilt":
		runConstructed(kind, c.Note, c.Key)
	case "time":
		runTime(kind, c.Note)
	case "ecjwk":
		runECJWK(kind, c.Note, c.Key)
	case "fp":
		runFP(kind, c.Code, c.Key, c.Note)
	case "didkey":
		runDIDKeyCode(kind, c.Code, c.Key, c.Note)
	}
}

func readCase(path string) (caseDesc, []byte, error) {
	b, err := os.ReadFile(path) //nolint:gosec
	if err != nil {
		return caseDesc{}, nil, err
	}

	var w struct {
		Case json.RawMessage `json:"case"`
	}

	raw := b

	if err := json.Unmarshal(b, &w); err == nil && len(w.Case) > 0 {
		raw = w.Case
	}

	var c caseDesc

	if err := json.Unmarshal(raw, &c); err != nil {
		return caseDesc{}, nil, err
	}

	return c, raw, nil
}

func main() {
	a := hx.ParseArgs()
	tr = hx.NewTrace(a.Out)

	defer tr.Close()

	if a.Replay != "" {
		c, raw, err := readCase(a.Replay)
		if err != nil {
			fmt.Fprintln(os.Stderr, "replay:", err)
			os.Exit(2)
		}

		runCase("replay", c, raw)

		return
	}

	// corpus first
	if a.Extra != "" {
		files, _ := filepath.Glob(filepath.Join(a.Extra, "*.json"))
		sort.Strings(files)

		for _, f := range files {
			c, raw, err := readCase(f)
			if err != nil {
				fmt.Fprintln(os.Stderr, "corpus:", f, err)
				os.Exit(2)
			}

			runCase("corpus", c, raw)
		}
	}

	rng := hx.NewRng(a.Seed)
	scale := 1

	if a.Tier == "thorough" {
		scale = 8
	}

	for i := 0; i < 650*scale; i++ {
		d, _ := randVC(rng.Fork(uint64(i)))
		runVC("random-vc", d, false, "")
	}

	for i := 0; i < 80*scale; i++ {
		runVC("random-vc-validated", randValidVC(rng.Fork(uint64(100000+i))), true, "")
	}

	for i := 0; i < 240*scale; i++ {
		d, _ := randVP(rng.Fork(uint64(200000 + i)))
		runVP("random-vp", d, "")
	}

	for i := 0; i < 200*scale; i++ {
		r := rng.Fork(uint64(300000 + i))
		runJWT("random-jwt", randJWTVC(r), r.Bool(), "")
	}

	for i := 0; i < 220*scale; i++ {
		runDID("random-did", randDID(rng.Fork(uint64(400000+i))), "")
	}

	for i := 0; i < 150*scale; i++ {
		runEnclosing("random-vp-enclosing", randEnclosing(rng.Fork(uint64(700000+i))))
	}

	for i := 0; i < 120*scale; i++ {
		res, _ := randResolution(rng.Fork(uint64(1000000 + i)))
		runResolution("random-did-resolution", res, "")
	}

	for i := 0; i < 40*scale; i++ {
		r := rng.Fork(uint64(1100000 + i))
		d := randJWTVC(r)
		d.set("credentialSubject", arr(obj(kv("id", str("did:ex:s1")), kv("a", num(1))), obj(kv("id", str("did:ex:s2")))))
		runJWTMultiSubject("jwt-several-subjects", d)
	}

	for i := 0; i < 100*scale; i++ {
		r := rng.Fork(uint64(1200000 + i))

		var d *J
		for {
			var f feat
			d, f = randVP(r.Fork(uint64(r.Intn(1 << 30))))
			if (f == feat{}) {
				break
			}
		}

		runJWTVP("jwt-vp", d, [][]string{nil, {"did:ex:verifier"}, {"did:ex:v1", "https://ex.com/v2"}}[r.Intn(3)], r.Bool())
	}

	runDIDKeyUnsupported("didkey-unsupported")
	genJWKs(rng.Fork(800000), scale)
	genConstructed(rng.Fork(900000))
	genFP(rng.Fork(500000), scale)
	genDIDKeys(rng.Fork(600000), scale)
	genTimes(rng.Fork(1300000), scale)
	genECJWKs(rng.Fork(1400000), scale)
}

func min(a, b int) int {
	if a < b {
		return a
	}

	return b
}
