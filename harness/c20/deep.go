// deep.go: submission requirements nested deeper than two levels (from_nested inside from_nested ...), through
// CreateVP + Match and through makeRequirement+toLogic / IsSatisfiedBy directly.
package main

import (
	"fmt"

	"github.com/hyperledger/aries-framework-go/component/models/presexch"

	"verifharness/hx"
)

// randDeepSReq: a requirement tree whose first branch reaches exactly `depth` levels of from_nested.
func randDeepSReq(rng *hx.Rng, depth, ngroups int, spine bool) SReq {
	s := SReq{}

	switch rng.Intn(6) {
	case 0, 1:
		s.All = true
	case 2:
		s.Count = 1 + rng.Intn(2)
	case 3:
		s.Min = 1
	case 4:
		s.Max = 1 + rng.Intn(2)
	default:
		s.Min = rng.Intn(2)
		s.Max = s.Min + 1 + rng.Intn(2)
	}

	if depth <= 0 || (!spine && rng.Intn(2) == 0) {
		s.From = 1 + rng.Intn(ngroups)

		return s
	}

	n := 1 + rng.Intn(3)
	for i := 0; i < n; i++ {
		s.Nested = append(s.Nested, randDeepSReq(rng, depth-1, ngroups, spine && i == 0))
	}

	return s
}

func sreqDepth(s SReq) int {
	d := 0
	for _, c := range s.Nested {
		if x := 1 + sreqDepth(c); x > d {
			d = x
		}
	}

	return d
}

func genDeep(r *runner, rng *hx.Rng, thorough bool) {
	n := 110
	if thorough {
		n = 1200
	}

	for k := 0; k < n; k++ {
		g := rng.Fork(uint64(k))
		nd := 3 + g.Intn(4)
		ngroups := 2 + g.Intn(3)
		depth := 3 + g.Intn(3)

		var descs []Desc

		for i := 1; i <= nd; i++ {
			var groups []int

			for gi := 1; gi <= ngroups; gi++ {
				if g.Intn(2) == 0 {
					groups = append(groups, gi)
				}
			}

			if len(groups) == 0 {
				groups = []int{1 + g.Intn(ngroups)}
			}

			descs = append(descs, simpleDesc(i, groups))
		}

		// every group has a descriptor (otherwise "no descriptors for from" ends most cases early)
		for gi := 1; gi <= ngroups; gi++ {
			has := false
			for _, d := range descs {
				for _, x := range d.Groups {
					has = has || x == gi
				}
			}

			if !has {
				descs[g.Intn(nd)].Groups = append(descs[g.Intn(nd)].Groups, gi)
			}
		}

		srs := []SReq{randDeepSReq(g, depth, ngroups, true)}
		if g.Intn(4) == 0 {
			srs = append(srs, randDeepSReq(g, 1+g.Intn(3), ngroups, true))
		}

		def := Defn{Reqs: srs, Descs: descs}

		// satisfiable descriptors: usually most of them
		var sat, miss []int

		for i := 1; i <= nd; i++ {
			if g.Intn(4) > 0 {
				sat = append(sat, i)
			} else {
				miss = append(miss, i)
			}
		}

		var creds []Cred

		if g.Bool() {
			creds = append(creds, credFor(1, sat, miss))
		} else {
			for j, i := range sat {
				creds = append(creds, credFor(j+1, []int{i}, miss))
			}

			if len(creds) == 0 {
				creds = append(creds, credFor(1, nil, miss))
			}
		}

		r.do(fmt.Sprintf("deep-%d", sreqDepth(srs[0])), Case{Def: def, Creds: creds}, true)

		// the requirement logic of the same definition, directly
		pd, err := buildDef(def)
		must(err)

		vr, err := presexch.VerifRequirementOf(pd)
		rec := &hx.Record{Kind: "requirement-of-deep", Case: map[string]interface{}{"def": def, "set": sat},
			Class: fmt.Sprintf("reqof-deep/%d/%d", nd, sreqDepth(srs[0])),
			Dist:  []string{fmt.Sprintf("requirement-nesting-depth:%d", sreqDepth(srs[0]))}}

		if err != nil {
			rec.Coq = fmt.Sprintf("Rx {| r_def := %s; r_out := None; r_set := %s; r_sat := false |}", coqDefn(def), hx.CoqNList(sat))
		} else {
			q := fromVerifReq(vr)
			got := presexch.VerifIsSatisfiedBy(vr, dnames(sat))
			m := map[int]bool{}

			for _, s := range sat {
				m[s] = true
			}

			if got != isSat(q, m) {
				rec.Oracle, rec.Sig = "fail", "is-satisfied-by-differs-from-rule-semantics"
				rec.Detail = fmt.Sprintf("IsSatisfiedBy=%v for %v", got, sat)
			}

			rec.Coq = fmt.Sprintf("Rx {| r_def := %s; r_out := Some %s; r_set := %s; r_sat := %s |}", coqDefn(def), coqReq(q),
				hx.CoqNList(sat), hx.CoqBool(got))
		}

		r.tr.Put(rec)
	}
}
