package main

import (
	"fmt"
	"sort"
	"strings"

	"verifharness/hx"
)

// ---------- abstract inputs (replayable JSON; the same structure as coq/C20/Model.v) ----------

// Val is a value: T = "n" number, "s" string code, "b" bool, "a" an array of scalars L (an array given by a code
// S only, as in older corpus files, stands for [s<S>, S]), "z" JSON null (observed only).
type Val struct {
	T string `json:"t"`
	N int64  `json:"n,omitempty"`
	S int    `json:"s,omitempty"`
	B bool   `json:"b,omitempty"`
	L []Val  `json:"l,omitempty"`
}

// norm expands the short form of an array.
func (v Val) norm() Val {
	if v.T == "a" && v.L == nil {
		v.L = []Val{{T: "s", S: v.S}, {T: "n", N: int64(v.S)}}
		v.S = 0
	}

	return v
}

// Attr is one credentialSubject leaf: K < 100 is the member a<K>, K = 100*o + k is the member a<k> of the nested
// object o<o> (so a1 and o5.a1 carry the same claim name at two levels).
type Attr struct {
	K int `json:"k"`
	V Val `json:"v"`
}

// Cred is a credential: ID 0 = no id, Subject 0 = no subject id, JWT 0 = linked-data form else alg code.
type Cred struct {
	ID      int    `json:"id"`
	Issuer  int    `json:"issuer"`
	Subject int    `json:"subject"`
	// Ctx: which of the two custom JSON-LD contexts the credential uses (0/1 = v1, 2 = v2). The type TERMS T2 and T4
	// stand for different IRIs in the two (T3 for the same one).
	Ctx   int   `json:"ctx,omitempty"`
	Types []int `json:"types"`
	Proofs  []int  `json:"proofs,omitempty"`
	JWT     int    `json:"jwt,omitempty"`
	// SD: an SD-JWT credential (every credentialSubject leaf is selectively disclosable); JWT is then the alg code.
	SD    bool   `json:"sd,omitempty"`
	// MapSubject: the holder built the credential object itself and holds the subject as a map (as the package's
	// own tests do) instead of the []Subject form ParseCredential produces. Not part of the model: it must not matter.
	MapSubject bool `json:"map_subject,omitempty"`
	Attrs []Attr `json:"attrs"`
}

// Filter is a JSON-schema filter.
type Filter struct {
	Type  int    `json:"type,omitempty"` // 1 number 2 string 3 boolean
	Const *Val   `json:"const,omitempty"`
	Min   *int64 `json:"min,omitempty"`
	Max   *int64 `json:"max,omitempty"`
	Enum  []Val  `json:"enum,omitempty"`
}

// Field is a constraints field.
type Field struct {
	Paths    []int   `json:"paths"`
	Filter   *Filter `json:"filter,omitempty"`
	Optional bool    `json:"optional,omitempty"`
	Pred     bool    `json:"pred,omitempty"`
}

// Cons are constraints: Limit/SII 0 absent, 1 preferred, 2 required.
type Cons struct {
	Limit  int     `json:"limit,omitempty"`
	SII    int     `json:"sii,omitempty"`
	Fields []Field `json:"fields"`
}

// Format lists proof types / algs per designation; nil = absent.
type Format struct {
	Ldp   *[]int `json:"ldp,omitempty"`
	LdpVC *[]int `json:"ldp_vc,omitempty"`
	LdpVP *[]int `json:"ldp_vp,omitempty"`
	Jwt   *[]int `json:"jwt,omitempty"`
	JwtVC *[]int `json:"jwt_vc,omitempty"`
	JwtVP *[]int `json:"jwt_vp,omitempty"`
}

// Sch is a schema entry.
type Sch struct {
	URI      int  `json:"uri"`
	Required bool `json:"required,omitempty"`
}

// Desc is an input descriptor.
type Desc struct {
	ID     int     `json:"id"`
	Groups []int   `json:"groups,omitempty"`
	Schema []Sch   `json:"schema,omitempty"`
	Cons   *Cons   `json:"cons,omitempty"`
	Format *Format `json:"format,omitempty"`
}

// SReq is a submission requirement (From 0 = from_nested).
type SReq struct {
	All    bool   `json:"all,omitempty"`
	Count  int    `json:"count,omitempty"`
	Min    int    `json:"min,omitempty"`
	Max    int    `json:"max,omitempty"`
	From   int    `json:"from,omitempty"`
	Nested []SReq `json:"nested,omitempty"`
}

// Defn is a presentation definition.
type Defn struct {
	Format *Format `json:"format,omitempty"`
	Reqs   []SReq  `json:"reqs,omitempty"`
	Descs  []Desc  `json:"descs"`
}

// Case is one holder/verifier case.
type Case struct {
	Def   Defn   `json:"def"`
	Creds []Cred `json:"creds"`
}

// ---------- Gallina printers ----------

func coqVal(v Val) string {
	switch v.T {
	case "n":
		return "VNum " + hx.CoqZ(v.N)
	case "s":
		return "VStr " + hx.CoqN(v.S)
	case "a":
		return "VArr " + coqVals(v.norm().L)
	case "z": // JSON null: no model value; an array nothing else is
		return "VArr [VArr []]"
	default:
		return "VBool " + hx.CoqBool(v.B)
	}
}

func coqValOpt(v *Val) string {
	if v == nil {
		return "None"
	}

	return "(Some (" + coqVal(*v) + "))"
}

func coqZOpt(v *int64) string {
	if v == nil {
		return "None"
	}

	return "(Some " + hx.CoqZ(*v) + ")"
}

func coqVals(vs []Val) string {
	s := make([]string, len(vs))
	for i, v := range vs {
		s[i] = coqVal(v)
	}

	return hx.CoqList(s)
}

func coqCred(c Cred) string {
	at := make([]string, len(c.Attrs))
	for i, a := range c.Attrs {
		at[i] = fmt.Sprintf("(%s, %s)", hx.CoqN(a.K), coqVal(a.V))
	}

	ctx := c.Ctx
	if ctx == 0 {
		ctx = 1
	}

	return fmt.Sprintf("{| c_id := %s; c_issuer := %s; c_subject := %s; c_ctx := %s; c_types := %s; c_proofs := %s; c_jwt := %s; c_sd := %s; c_rawsubj := %s; c_attrs := %s |}",
		hx.CoqN(c.ID), hx.CoqN(c.Issuer), hx.CoqN(c.Subject), hx.CoqN(ctx), hx.CoqNList(c.Types), hx.CoqNList(c.Proofs),
		hx.CoqN(c.JWT), hx.CoqBool(c.SD), hx.CoqBool(c.MapSubject), hx.CoqList(at))
}

func coqCreds(cs []Cred) string {
	s := make([]string, len(cs))
	for i, c := range cs {
		s[i] = coqCred(c)
	}

	return hx.CoqList(s)
}

func coqFilter(f *Filter) string {
	if f == nil {
		return "None"
	}

	return fmt.Sprintf("(Some {| ft_type := %s; ft_const := %s; ft_min := %s; ft_max := %s; ft_enum := %s |})",
		hx.CoqN(f.Type), coqValOpt(f.Const), coqZOpt(f.Min), coqZOpt(f.Max), coqVals(f.Enum))
}

func coqField(f Field) string {
	return fmt.Sprintf("{| f_paths := %s; f_filter := %s; f_optional := %s; f_pred := %s |}",
		hx.CoqNList(f.Paths), coqFilter(f.Filter), hx.CoqBool(f.Optional), hx.CoqBool(f.Pred))
}

func coqCons(k *Cons) string {
	if k == nil {
		return "None"
	}

	fs := make([]string, len(k.Fields))
	for i, f := range k.Fields {
		fs[i] = coqField(f)
	}

	return fmt.Sprintf("(Some {| k_limit := %s; k_sii := %s; k_fields := %s |})",
		hx.CoqBool(k.Limit == 2), hx.CoqBool(k.SII == 2), hx.CoqList(fs))
}

func coqNListOpt(l *[]int) string {
	if l == nil {
		return "None"
	}

	return "(Some " + hx.CoqNList(*l) + ")"
}

func coqFormat(f *Format) string {
	if f == nil {
		return "None"
	}

	return fmt.Sprintf("(Some {| fm_ldp := %s; fm_ldpvc := %s; fm_ldpvp := %s; fm_jwt := %s; fm_jwtvc := %s; fm_jwtvp := %s |})",
		coqNListOpt(f.Ldp), coqNListOpt(f.LdpVC), coqNListOpt(f.LdpVP), coqNListOpt(f.Jwt), coqNListOpt(f.JwtVC), coqNListOpt(f.JwtVP))
}

func coqDesc(d Desc) string {
	sc := make([]string, len(d.Schema))
	for i, s := range d.Schema {
		sc[i] = fmt.Sprintf("(%s, %s)", hx.CoqN(s.URI), hx.CoqBool(s.Required))
	}

	return fmt.Sprintf("{| d_id := %s; d_groups := %s; d_schema := %s; d_constraints := %s; d_format := %s |}",
		hx.CoqN(d.ID), hx.CoqNList(d.Groups), hx.CoqList(sc), coqCons(d.Cons), coqFormat(d.Format))
}

func coqSReq(s SReq) string {
	if s.From != 0 {
		return fmt.Sprintf("SFrom %s %s %s %s %s", hx.CoqBool(s.All), hx.CoqZ(int64(s.Count)), hx.CoqZ(int64(s.Min)),
			hx.CoqZ(int64(s.Max)), hx.CoqN(s.From))
	}

	n := make([]string, len(s.Nested))
	for i, c := range s.Nested {
		n[i] = coqSReq(c)
	}

	return fmt.Sprintf("SNested %s %s %s %s %s", hx.CoqBool(s.All), hx.CoqZ(int64(s.Count)), hx.CoqZ(int64(s.Min)),
		hx.CoqZ(int64(s.Max)), hx.CoqList(n))
}

func coqDefn(p Defn) string {
	rs := make([]string, len(p.Reqs))
	for i, r := range p.Reqs {
		rs[i] = coqSReq(r)
	}

	ds := make([]string, len(p.Descs))
	for i, d := range p.Descs {
		ds[i] = coqDesc(d)
	}

	return fmt.Sprintf("{| p_format := %s; p_reqs := %s; p_descs := %s |}", coqFormat(p.Format), hx.CoqList(rs), hx.CoqList(ds))
}

// Mapping is one descriptor-map entry as observed.
type Mapping struct {
	ID    int `json:"id"`
	Idx   int `json:"idx"`
	VCFmt int `json:"vcfmt"`
}

func coqMappings(ms []Mapping) string {
	s := make([]string, len(ms))
	for i, m := range ms {
		s[i] = fmt.Sprintf("{| mp_id := %s; mp_idx := %s; mp_vcfmt := %s |}", hx.CoqN(m.ID), hx.CoqNat(m.Idx), hx.CoqN(m.VCFmt))
	}

	return hx.CoqList(s)
}

// Matched is one entry of Match's result.
type Matched struct {
	ID   int  `json:"id"`
	Cred Cred `json:"cred"`
}

func coqMatched(ms []Matched) string {
	s := make([]string, len(ms))
	for i, m := range ms {
		s[i] = fmt.Sprintf("(%s, %s)", hx.CoqN(m.ID), coqCred(m.Cred))
	}

	return hx.CoqList(s)
}

// Req mirrors presexch.VerifReq with numeric ids.
type Req struct {
	IDs    []int `json:"ids,omitempty"`
	Nested []Req `json:"nested,omitempty"`
	Count  int   `json:"count"`
	Min    int   `json:"min"`
	Max    int   `json:"max"`
}

func coqReq(r Req) string {
	n := make([]string, len(r.Nested))
	for i, c := range r.Nested {
		n[i] = coqReq(c)
	}

	return fmt.Sprintf("(Req %s %s %s %s %s)", hx.CoqNList(r.IDs), hx.CoqList(n), hx.CoqZ(int64(r.Count)),
		hx.CoqZ(int64(r.Min)), hx.CoqZ(int64(r.Max)))
}

// ---------- reference semantics used by the direct oracle (independent of JSONPath / JSON schema engines) ----------

func valEq(a, b Val) bool {
	if a.T != b.T {
		return false
	}

	switch a.T {
	case "n":
		return a.N == b.N
	case "s":
		return a.S == b.S
	case "a":
		x, y := a.norm().L, b.norm().L
		if len(x) != len(y) {
			return false
		}

		for i := range x {
			if !valEq(x[i], y[i]) {
				return false
			}
		}

		return true
	case "z":
		return true
	default:
		return a.B == b.B
	}
}

func (c Cred) get(k int) (Val, bool) {
	if k >= 1000 { // element (k/1000 - 1) of the array member k % 1000
		if v, ok := c.get(k % 1000); ok && v.T == "a" {
			l := v.norm().L
			if i := k/1000 - 1; i < len(l) {
				return l[i], true
			}
		}

		return Val{}, false
	}

	for _, a := range c.Attrs {
		if a.K == k {
			return a.V, true
		}
	}

	return Val{}, false
}

func refFilter(f *Filter, v Val) bool {
	if f == nil {
		return true
	}

	if f.Type != 0 && map[int]string{1: "n", 2: "s", 3: "b"}[f.Type] != v.T {
		return false
	}

	if f.Const != nil && !valEq(*f.Const, v) {
		return false
	}

	if f.Min != nil && v.T == "n" && v.N < *f.Min {
		return false
	}

	if f.Max != nil && v.T == "n" && v.N > *f.Max {
		return false
	}

	if len(f.Enum) > 0 {
		ok := false
		for _, e := range f.Enum {
			ok = ok || valEq(e, v)
		}

		if !ok {
			return false
		}
	}

	return true
}

// refField: the field is satisfied when one of its paths selects a value passing the filter, or it is optional
// (the specification's reading; used only to judge credentials the implementation returned).
func refField(f Field, c Cred) bool {
	for _, p := range f.Paths {
		if v, ok := c.get(p); ok && refFilter(f.Filter, v) {
			return true
		}
	}

	return f.Optional
}

// refSatisfies: does the (original) credential satisfy the descriptor's format, schema and constraints?
// typeIRI: the IRI (code) the credential's context gives a type term.
func typeIRI(c Cred, t int) int {
	if c.Ctx == 2 && (t == 2 || t == 4) {
		return t + 10
	}

	return t
}

func refSatisfies(p Defn, d Desc, c Cred) bool {
	for _, s := range d.Schema {
		has := false
		for _, t := range c.Types {
			has = has || typeIRI(c, t) == s.URI
		}

		if s.Required && !has {
			return false
		}
	}

	if len(d.Schema) > 0 {
		any := false

		for _, s := range d.Schema {
			for _, t := range c.Types {
				any = any || typeIRI(c, t) == s.URI
			}
		}

		if !any {
			return false
		}
	}

	f := d.Format
	if f.empty() {
		f = p.Format
	}

	if !f.empty() {
		ok := false

		for _, l := range []*[]int{f.Ldp, f.LdpVC, f.LdpVP} {
			if l != nil {
				for _, w := range *l {
					for _, h := range c.Proofs {
						ok = ok || w == h
					}
				}
			}
		}

		for _, l := range []*[]int{f.Jwt, f.JwtVC, f.JwtVP} {
			if l != nil && c.JWT != 0 {
				for _, w := range *l {
					ok = ok || w == c.JWT
				}
			}
		}

		if !ok {
			return false
		}
	}

	if d.Cons != nil {
		if d.Cons.SII == 2 && !(c.Subject != 0 && c.Subject == c.Issuer) {
			return false
		}

		for _, fl := range d.Cons.Fields {
			if !refField(fl, c) {
				return false
			}
		}
	}

	return true
}

func (f *Format) empty() bool {
	return f == nil || (f.Ldp == nil && f.LdpVC == nil && f.LdpVP == nil && f.Jwt == nil && f.JwtVC == nil && f.JwtVP == nil)
}

// normalize makes the definition valid for one of the two JSON schemas ValidateSchema accepts: the v1 flavour
// (every descriptor has a schema member, filters carry a type, no optional fields, no descriptor format) or the
// v2 flavour (no schema members).  A predicate needs a filter and excludes optional in both.
func normalize(p *Defn) {
	v2 := false

	for i := range p.Descs {
		d := &p.Descs[i]
		if d.Format != nil {
			v2 = true
		}

		if d.Cons == nil {
			continue
		}

		for j := range d.Cons.Fields {
			f := &d.Cons.Fields[j]
			if f.Pred {
				f.Optional = false

				if f.Filter == nil {
					f.Filter = &Filter{Type: 1}
				}
			}

			if f.Optional || (f.Filter != nil && f.Filter.Type == 0) {
				v2 = true
			}
		}
	}

	if len(p.Descs) > 0 && len(p.Descs[0].Schema) == 0 {
		v2 = true
	}

	for i := range p.Descs {
		if v2 {
			p.Descs[i].Schema = nil
		} else if len(p.Descs[i].Schema) == 0 {
			p.Descs[i].Schema = []Sch{{URI: 1}}
		}
	}
}

func requestedKeys(d Desc) map[int]bool {
	out := map[int]bool{}

	if d.Cons != nil {
		for _, f := range d.Cons.Fields {
			for _, p := range f.Paths {
				out[p] = true
			}
		}
	}

	return out
}

func sortAttrs(a []Attr) { sort.Slice(a, func(i, j int) bool { return a[i].K < a[j].K }) }

func shape(c Case) string {
	var b strings.Builder

	fmt.Fprintf(&b, "n%d/r%d/c%d", len(c.Def.Descs), len(c.Def.Reqs), len(c.Creds))

	return b.String()
}
