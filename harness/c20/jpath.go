// jpath.go: the two JSONPath engines presexch uses (PaesslerAG/jsonpath in filterField, kawamuray/jsonpath in
// compactArrayPaths) and the JSON-schema filter (gojsonschema through filterField) driven on generated JSON
// documents x paths x filters through the verif export, for comparison with coq/C20/JsonPath.v (which parses the
// path TEXT itself).
package main

import (
	"encoding/json"
	"fmt"
	"sort"
	"strconv"
	"strings"

	"github.com/PaesslerAG/jsonpath"
	"github.com/hyperledger/aries-framework-go/component/models/presexch"

	"verifharness/hx"
)

// ---------- ordered JSON trees ----------

// JV is a JSON value with the member order of the document: T = z null, b, n, s, a, o.
type JV struct {
	T string `json:"t"`
	B bool   `json:"b,omitempty"`
	N int64  `json:"n,omitempty"`
	S string `json:"s,omitempty"`
	A []JV   `json:"a,omitempty"`
	O []JM   `json:"o,omitempty"`
}

// JM is one object member.
type JM struct {
	K string `json:"k"`
	V JV     `json:"v"`
}

func jn(n int64) JV  { return JV{T: "n", N: n} }
func js(s string) JV { return JV{T: "s", S: s} }

func (v JV) write(b *strings.Builder) {
	switch v.T {
	case "z":
		b.WriteString("null")
	case "b":
		b.WriteString(strconv.FormatBool(v.B))
	case "n":
		b.WriteString(strconv.FormatInt(v.N, 10))
	case "s":
		q, _ := json.Marshal(v.S)
		b.Write(q)
	case "a":
		b.WriteByte('[')

		for i, x := range v.A {
			if i > 0 {
				b.WriteByte(',')
			}

			x.write(b)
		}

		b.WriteByte(']')
	default:
		b.WriteByte('{')

		for i, m := range v.O {
			if i > 0 {
				b.WriteByte(',')
			}

			q, _ := json.Marshal(m.K)
			b.Write(q)
			b.WriteByte(':')
			m.V.write(b)
		}

		b.WriteByte('}')
	}
}

func (v JV) text() string {
	var b strings.Builder

	v.write(&b)

	return b.String()
}

func (v JV) coq() string {
	switch v.T {
	case "z":
		return "JNull"
	case "b":
		return "(JBool " + hx.CoqBool(v.B) + ")"
	case "n":
		return "(JNum " + hx.CoqZ(v.N) + ")"
	case "s":
		return "(JStr " + hx.CoqString(v.S) + ")"
	case "a":
		var it []string
		for _, x := range v.A {
			it = append(it, x.coq())
		}

		return "(JArr " + hx.CoqList(it) + ")"
	default:
		var it []string
		for _, m := range v.O {
			it = append(it, "("+hx.CoqString(m.K)+", "+m.V.coq()+")")
		}

		return "(JObj " + hx.CoqList(it) + ")"
	}
}

// fromGo converts a decoded JSON value (object members sorted by key: the order is not observable).
func fromGo(x interface{}) (JV, bool) {
	switch t := x.(type) {
	case nil:
		return JV{T: "z"}, true
	case bool:
		return JV{T: "b", B: t}, true
	case float64:
		if t != float64(int64(t)) {
			return JV{}, false
		}

		return jn(int64(t)), true
	case int:
		return jn(int64(t)), true
	case string:
		return js(t), true
	case []interface{}:
		out := JV{T: "a"}

		for _, e := range t {
			v, ok := fromGo(e)
			if !ok {
				return JV{}, false
			}

			out.A = append(out.A, v)
		}

		return out, true
	case map[string]interface{}:
		out := JV{T: "o"}

		keys := make([]string, 0, len(t))
		for k := range t {
			keys = append(keys, k)
		}

		sort.Strings(keys)

		for _, k := range keys {
			v, ok := fromGo(t[k])
			if !ok {
				return JV{}, false
			}

			out.O = append(out.O, JM{K: k, V: v})
		}

		return out, true
	}

	return JV{}, false
}

// canon: a canonical text (members sorted) for comparing values whatever the member order.
func (v JV) canon() string {
	var x interface{}

	_ = json.Unmarshal([]byte(v.text()), &x)
	b, _ := json.Marshal(x)

	return string(b)
}

// ---------- paths ----------

// PStep is one step of a generated path: K = "name", "idx", "wildn" (.*), "wildi" ([*]), "desc" (..name);
// Q = notation of a name: 0 .name, 1 ['name'], 2 ["name"], 3 ."name".
type PStep struct {
	K string `json:"k"`
	S string `json:"s,omitempty"`
	I int    `json:"i,omitempty"`
	Q int    `json:"q,omitempty"`
}

func renderPath(steps []PStep) string {
	var b strings.Builder

	b.WriteByte('$')

	for _, s := range steps {
		switch s.K {
		case "name":
			switch s.Q {
			case 1:
				b.WriteString("['" + s.S + "']")
			case 2:
				b.WriteString("[\"" + s.S + "\"]")
			case 3:
				b.WriteString(".\"" + s.S + "\"")
			default:
				b.WriteString("." + s.S)
			}
		case "idx":
			b.WriteString("[" + strconv.Itoa(s.I) + "]")
		case "wildn":
			b.WriteString(".*")
		case "wildi":
			b.WriteString("[*]")
		default:
			b.WriteString(".." + s.S)
		}
	}

	return b.String()
}

// lelem is one element of a concrete location.
type lelem struct {
	key string
	idx int
	isI bool
}

type node struct {
	loc []lelem
	v   JV
}

func dotted(l []lelem) string {
	var p []string

	for _, e := range l {
		if e.isI {
			p = append(p, strconv.Itoa(e.idx))
		} else {
			// member names are escaped in the path text gjson / sjson read
			p = append(p, strings.NewReplacer(`\`, `\\`, ".", `\.`).Replace(e.key))
		}
	}

	return strings.Join(p, ".")
}

func ext(l []lelem, e lelem) []lelem {
	out := make([]lelem, len(l)+1)
	copy(out, l)
	out[len(l)] = e

	return out
}

func kids(n node) []node {
	var out []node

	switch n.v.T {
	case "a":
		for i, x := range n.v.A {
			out = append(out, node{ext(n.loc, lelem{idx: i, isI: true}), x})
		}
	case "o":
		for _, m := range n.v.O {
			out = append(out, node{ext(n.loc, lelem{key: m.K}), m.V})
		}
	}

	return out
}

// allNodes: every node of the document in document order (a node before its children).
func allNodes(n node) []node {
	out := []node{n}

	for _, k := range kids(n) {
		out = append(out, allNodes(k)...)
	}

	return out
}

// refSelect: the nodes a path selects, by the textbook reading of JSONPath (independent of the Coq model).
// any = the wildcard forms .* and [*] both range over members and elements (PaesslerAG); otherwise .* ranges over
// members only and [*] over elements only (kawamuray).
func refSelect(steps []PStep, doc JV, any bool) []node {
	cur := []node{{nil, doc}}

	for _, s := range steps {
		var next []node

		for _, n := range cur {
			switch s.K {
			case "name", "desc":
				from := []node{n}
				if s.K == "desc" {
					from = allNodes(n)
				}

				for _, f := range from {
					if f.v.T == "o" {
						for _, m := range f.v.O {
							if m.K == s.S {
								next = append(next, node{ext(f.loc, lelem{key: m.K}), m.V})

								break
							}
						}
					}
				}
			case "idx":
				if n.v.T == "a" && s.I < len(n.v.A) {
					next = append(next, node{ext(n.loc, lelem{idx: s.I, isI: true}), n.v.A[s.I]})
				}
			case "wildn":
				if n.v.T == "o" || (any && n.v.T == "a") {
					next = append(next, kids(n)...)
				}
			case "wildi":
				if n.v.T == "a" || (any && n.v.T == "o") {
					next = append(next, kids(n)...)
				}
			}
		}

		cur = next
	}

	return cur
}

// refGet: the value the filter engine hands to the schema: the selected node of a definite path (none = error), the
// array of all matches of an indefinite one.
func refGet(st []PStep, doc JV) (JV, bool) {
	if !pAccepts(st) {
		return JV{}, false
	}

	sel := refSelect(st, doc, true)

	if !definite(st) {
		val := JV{T: "a"}
		for _, n := range sel {
			val.A = append(val.A, n.v)
		}

		return val, true
	}

	if len(sel) == 0 {
		return JV{}, false
	}

	return sel[0].v, true
}

func definite(steps []PStep) bool {
	for _, s := range steps {
		if s.K != "name" && s.K != "idx" {
			return false
		}
	}

	return true
}

func isIdent(s string) bool {
	if s == "" {
		return false
	}

	for i, c := range s {
		if !(c == '_' || (c >= 'a' && c <= 'z') || (c >= 'A' && c <= 'Z') || (i > 0 && c >= '0' && c <= '9')) {
			return false
		}
	}

	return true
}

// dialects: does PaesslerAG / kawamuray accept the notation?
func pAccepts(steps []PStep) bool {
	for _, s := range steps {
		// a single-quoted name is read as a character literal: one character only
		if s.K == "name" && (s.Q == 3 || (s.Q == 0 && !isIdent(s.S)) || (s.Q == 1 && len(s.S) != 1)) {
			return false
		}

		if s.K == "desc" && !isIdent(s.S) {
			return false
		}
	}

	return true
}

func kAccepts(steps []PStep) bool {
	for _, s := range steps {
		if s.K == "desc" || (s.K == "name" && s.Q == 1) {
			return false
		}
	}

	return len(steps) > 0
}

// ---------- JSON-schema filters ----------

// JSchema is the subset of JSON schema a presexch Filter can carry (pattern and format are not generated).
type JSchema struct {
	Type     string   `json:"type,omitempty"`
	Const    *JV      `json:"const,omitempty"`
	Enum     []JV     `json:"enum,omitempty"`
	Min      *int64   `json:"min,omitempty"`
	Max      *int64   `json:"max,omitempty"`
	EMin     *int64   `json:"emin,omitempty"`
	EMax     *int64   `json:"emax,omitempty"`
	MinLen   int      `json:"minlen,omitempty"`
	MaxLen   int      `json:"maxlen,omitempty"`
	Not      *JSchema `json:"not,omitempty"`
	Contains *JSchema `json:"contains,omitempty"`
}

func (s *JSchema) toMap() map[string]interface{} {
	m := map[string]interface{}{}

	if s.Type != "" {
		m["type"] = s.Type
	}

	if s.Const != nil {
		m["const"] = s.Const.goValue()
	}

	if len(s.Enum) > 0 {
		var l []interface{}
		for _, e := range s.Enum {
			l = append(l, e.goValue())
		}

		m["enum"] = l
	}

	for k, p := range map[string]*int64{"minimum": s.Min, "maximum": s.Max, "exclusiveMinimum": s.EMin, "exclusiveMaximum": s.EMax} {
		if p != nil {
			m[k] = *p
		}
	}

	if s.MinLen > 0 {
		m["minLength"] = s.MinLen
	}

	if s.MaxLen > 0 {
		m["maxLength"] = s.MaxLen
	}

	if s.Not != nil {
		m["not"] = s.Not.toMap()
	}

	if s.Contains != nil {
		m["contains"] = s.Contains.toMap()
	}

	return m
}

func (v JV) goValue() interface{} {
	var x interface{}

	_ = json.Unmarshal([]byte(v.text()), &x)

	if v.T == "n" {
		return v.N
	}

	return x
}

func (s *JSchema) toFilter() *presexch.Filter {
	f := &presexch.Filter{MinLength: s.MinLen, MaxLength: s.MaxLen}

	if s.Type != "" {
		t := s.Type
		f.Type = &t
	}

	if s.Const != nil {
		f.Const = s.Const.goValue()
	}

	for _, e := range s.Enum {
		f.Enum = append(f.Enum, e.goValue())
	}

	if s.Min != nil {
		f.Minimum = *s.Min
	}

	if s.Max != nil {
		f.Maximum = *s.Max
	}

	if s.EMin != nil {
		f.ExclusiveMinimum = *s.EMin
	}

	if s.EMax != nil {
		f.ExclusiveMaximum = *s.EMax
	}

	if s.Not != nil {
		f.Not = s.Not.toMap()
	}

	if s.Contains != nil {
		f.Contains = s.Contains.toMap()
	}

	return f
}

func typeOf(v JV) string {
	return map[string]string{"z": "null", "b": "boolean", "n": "number", "s": "string", "a": "array", "o": "object"}[v.T]
}

// refWF: the schema compiles (gojsonschema refuses minLength > maxLength and repeated enum items; a schema that
// does not compile accepts nothing).
func refWF(s *JSchema) bool {
	if s == nil {
		return true
	}

	if s.MinLen > 0 && s.MaxLen > 0 && s.MinLen > s.MaxLen {
		return false
	}

	for i := range s.Enum {
		for j := 0; j < i; j++ {
			if s.Enum[i].canon() == s.Enum[j].canon() {
				return false
			}
		}
	}

	return refWF(s.Not) && refWF(s.Contains)
}

// refSchema: the JSON-schema reading of the filter (independent of the Coq model).
func refSchema(s *JSchema, v JV) bool {
	return refWF(s) && refValid(s, v)
}

func refValid(s *JSchema, v JV) bool {
	if s == nil {
		return true
	}

	if s.Type != "" && s.Type != typeOf(v) && !(s.Type == "integer" && v.T == "n") {
		return false
	}

	if s.Const != nil && s.Const.canon() != v.canon() {
		return false
	}

	if len(s.Enum) > 0 {
		ok := false
		for _, e := range s.Enum {
			ok = ok || e.canon() == v.canon()
		}

		if !ok {
			return false
		}
	}

	if v.T == "n" {
		if (s.Min != nil && v.N < *s.Min) || (s.Max != nil && v.N > *s.Max) ||
			(s.EMin != nil && v.N <= *s.EMin) || (s.EMax != nil && v.N >= *s.EMax) {
			return false
		}
	}

	if v.T == "s" {
		if (s.MinLen > 0 && len(v.S) < s.MinLen) || (s.MaxLen > 0 && len(v.S) > s.MaxLen) {
			return false
		}
	}

	if s.Not != nil && refValid(s.Not, v) {
		return false
	}

	if s.Contains != nil && v.T == "a" {
		ok := false
		for _, e := range v.A {
			ok = ok || refValid(s.Contains, e)
		}

		if !ok {
			return false
		}
	}

	return true
}

func coqZOptP(p *int64) string {
	if p == nil {
		return "None"
	}

	return "(Some " + hx.CoqZ(*p) + ")"
}

func (s *JSchema) coq() string {
	if s == nil {
		return "None"
	}

	var en []string
	for _, e := range s.Enum {
		en = append(en, e.coq())
	}

	c := "None"
	if s.Const != nil {
		c = "(Some " + s.Const.coq() + ")"
	}

	return fmt.Sprintf("(Some (Schema %s %s %s %s %s %s %s %s %s %s %s))", hx.CoqString(s.Type), c, hx.CoqList(en),
		coqZOptP(s.Min), coqZOptP(s.Max), coqZOptP(s.EMin), coqZOptP(s.EMax), hx.CoqNat(s.MinLen), hx.CoqNat(s.MaxLen),
		s.Not.coq(), s.Contains.coq())
}

// ---------- cases ----------

// JCase is one case of the engines stream: Paths are the field's paths as text, Steps what the generator meant.
type JCase struct {
	Doc      JV        `json:"doc"`
	Paths    []string  `json:"paths"`
	Steps    [][]PStep `json:"steps,omitempty"`
	Filter   *JSchema  `json:"filter,omitempty"`
	Optional bool      `json:"optional,omitempty"`
	// Field: run filterField (paths + filter + optional) instead of the bare engines.
	Field bool `json:"field,omitempty"`
}

// JObs: what the real engines did.
type JObs struct {
	Get    []string   `json:"get,omitempty"`    // per path: canonical JSON of PaesslerAG's result, "" = error
	Stream [][]string `json:"stream,omitempty"` // compactArrayPaths over all paths: (newPath, oldPath) in report order
	SErr   string     `json:"stream_err,omitempty"`
	Single [][]string `json:"single,omitempty"` // per path alone: the oldPaths reported (nil = error)
	Field  string     `json:"field,omitempty"`  // "ok" / "no"
}

func coqStrList(l []string) string {
	var it []string
	for _, s := range l {
		it = append(it, hx.CoqString(s))
	}

	return hx.CoqList(it)
}

func (r *runner) doJPath(kind string, c JCase, withCoq bool) {
	o := &JObs{}
	src := []byte(c.Doc.text())

	var m map[string]interface{}
	if err := json.Unmarshal(src, &m); err != nil {
		r.tr.Put(&hx.Record{Kind: kind, Case: replayFile{JP: &c, Mode: "jpath"}, Oracle: "fail", Sig: "harness-error",
			Detail: err.Error(), Class: "harness-error"})

		return
	}

	rec := &hx.Record{Kind: kind, Case: replayFile{JP: &c, Mode: "jpath"}, Observed: o}
	sig, detail := "", ""
	fail := func(s, d string) {
		if sig == "" {
			sig, detail = s, d
		}
	}

	locs := map[string]string{}
	for _, n := range allNodes(node{nil, c.Doc}) {
		locs[dotted(n.loc)] = n.v.canon()
	}

	if c.Field {
		f := &presexch.Field{Path: c.Paths, Optional: c.Optional}
		if c.Filter != nil {
			f.Filter = c.Filter.toFilter()
		}

		err := presexch.VerifFilterField(f, m)
		o.Field = "ok"

		if err != nil {
			o.Field = "no"
		}

		// reference: the first path that selects decides when the schema accepts its value; a path selecting nothing
		// satisfies an optional field (filterField returns at the first such path); an indefinite path yields the array
		// of its matches
		want := false

		for _, st := range c.Steps {
			val, ok := refGet(st, c.Doc)
			if ok && refSchema(c.Filter, val) {
				want = true

				break
			}

			if !ok && c.Optional {
				want = true

				break
			}
		}

		if want != (err == nil) {
			fail("filter-field-differs-from-reference", fmt.Sprintf("filterField says %v, reference %v", err, want))
		}

		if withCoq {
			var ps []string
			for _, p := range c.Paths {
				ps = append(ps, hx.CoqString(p))
			}

			rec.Coq = fmt.Sprintf("Fx {| x_doc := %s; x_paths := %s; x_schema := %s; x_opt := %s; x_ok := %s |}",
				c.Doc.coq(), hx.CoqList(ps), c.Filter.coq(), hx.CoqBool(c.Optional), hx.CoqBool(err == nil))
		}

		rec.Class = "field/" + o.Field + "/" + fmt.Sprint(c.Filter != nil) + "/" + strconv.Itoa(len(c.Paths))
		rec.Dist = []string{"engine:field-" + o.Field}

		if c.Filter != nil {
			rec.Dist = append(rec.Dist, c.Filter.labels()...)
		}
	} else {
		var gets []string

		for i, p := range c.Paths {
			v, err := jsonpath.Get(p, m)
			if err != nil {
				o.Get = append(o.Get, "")
				gets = append(gets, "None")
			} else {
				jv, ok := fromGo(v)
				if !ok {
					fail("harness-error", "unprojectable value")
				}

				o.Get = append(o.Get, jv.canon())
				gets = append(gets, "(Some "+jv.coq()+")")

				// a path selects only existing nodes
				if i < len(c.Steps) && definite(c.Steps[i]) {
					found := false
					for _, cn := range locs {
						found = found || cn == jv.canon()
					}

					if !found {
						fail("jsonpath-selects-nonexistent-node", p+" -> "+jv.canon())
					}
				}
			}

			one, err := presexch.VerifCompactArrayPaths([]string{p}, src, map[string]int{})
			if err != nil {
				o.Single = append(o.Single, nil)
			} else {
				l := []string{}
				for _, t := range one {
					l = append(l, t.OldPath)
				}

				o.Single = append(o.Single, l)
			}

			// the two engines agree on a definite path both accept
			if i < len(c.Steps) && definite(c.Steps[i]) && err == nil && o.Get[i] != "" {
				if len(o.Single[i]) != 1 || locs[o.Single[i][0]] != o.Get[i] {
					fail("jsonpath-engines-disagree", fmt.Sprintf("%s: filter engine %s, disclosure engine %v", p, o.Get[i], o.Single[i]))
				}
			}

			if i < len(c.Steps) && definite(c.Steps[i]) && err == nil && o.Get[i] == "" && pAccepts(c.Steps[i]) && len(o.Single[i]) != 0 {
				fail("jsonpath-engines-disagree", fmt.Sprintf("%s: filter engine selects nothing, disclosure engine %v", p, o.Single[i]))
			}
		}

		set := map[string]int{}
		all, err := presexch.VerifCompactArrayPaths(c.Paths, src, set)
		stream := "None"

		if err != nil {
			o.SErr = err.Error()
		} else {
			var it []string

			for _, t := range all {
				o.Stream = append(o.Stream, []string{t.NewPath, t.OldPath})
				it = append(it, "("+hx.CoqString(t.NewPath)+", "+hx.CoqString(t.OldPath)+")")

				if _, ok := locs[t.OldPath]; !ok {
					fail("jsonpath-selects-nonexistent-node", "stream reports "+t.OldPath)
				}
			}

			stream = "(Some " + hx.CoqList(it) + ")"
		}

		if withCoq {
			var ps []string
			for _, p := range c.Paths {
				ps = append(ps, hx.CoqString(p))
			}

			rec.Coq = fmt.Sprintf("Jx {| j_doc := %s; j_paths := %s; j_get := %s; j_stream := %s |}",
				c.Doc.coq(), hx.CoqList(ps), hx.CoqList(gets), stream)
		}

		nsel := 0
		for _, g := range o.Get {
			if g != "" {
				nsel++
			}
		}

		rec.Class = fmt.Sprintf("engines/%d/%d/%d/%v", len(c.Paths), nsel, len(o.Stream), err == nil)
		rec.Trivial = nsel == 0 && len(o.Stream) == 0
		rec.Dist = []string{"engine:paths-" + strconv.Itoa(len(c.Paths))}

		for _, st := range c.Steps {
			for _, s := range st {
				rec.Dist = append(rec.Dist, "pathstep:"+s.K)
			}

			if len(st) > 0 && st[0].K == "name" && st[0].S != "credentialSubject" {
				rec.Dist = append(rec.Dist, "path-outside-subject")
			}
		}
	}

	if sig != "" {
		rec.Oracle, rec.Sig, rec.Detail = "fail", sig, detail
	}

	r.tr.Put(rec)
}

// stripOrder removes the keywords whose verdict on an array depends on the order of its elements (the order in which
// a wildcard over an object reports its matches is not defined).
func (s *JSchema) stripOrder() {
	if s == nil {
		return
	}

	s.Const, s.Enum = nil, nil
	s.Not.stripOrder()
	s.Contains.stripOrder()

	if s.Not != nil && len(s.Not.toMap()) == 0 {
		s.Not.Type = "string"
	}

	if s.Contains != nil && len(s.Contains.toMap()) == 0 {
		s.Contains.Type = "number"
	}
}

func (s *JSchema) labels() []string {
	var out []string

	add := func(b bool, n string) {
		if b {
			out = append(out, "schema:"+n)
		}
	}

	add(s.Type != "", "type")
	add(s.Const != nil, "const")
	add(len(s.Enum) > 0, "enum")
	add(s.Min != nil, "minimum")
	add(s.Max != nil, "maximum")
	add(s.EMin != nil, "exclusiveMinimum")
	add(s.EMax != nil, "exclusiveMaximum")
	add(s.MinLen > 0, "minLength")
	add(s.MaxLen > 0, "maxLength")
	add(s.Not != nil, "not")
	add(s.Contains != nil, "contains")

	return out
}

// ---------- generators ----------

var subjNames = []string{"a1", "a2", "a3", "o5", "a6", "n_1", "id", "k"}

func randScalar(rng *hx.Rng) JV {
	switch rng.Intn(6) {
	case 0:
		return jn(int64(rng.Intn(9)) - 2)
	case 1:
		return js([]string{"", "x", "ab", "abc", "T2"}[rng.Intn(5)])
	case 2:
		return JV{T: "b", B: rng.Bool()}
	case 3:
		return JV{T: "z"}
	case 4:
		return jn(int64(rng.Intn(40)))
	default:
		return js("s" + strconv.Itoa(rng.Intn(4)))
	}
}

func randValue(rng *hx.Rng, depth int) JV {
	if depth <= 0 || rng.Intn(5) < 2 {
		return randScalar(rng)
	}

	if rng.Bool() {
		out := JV{T: "a"}
		for i, n := 0, rng.Intn(4); i < n; i++ {
			out.A = append(out.A, randValue(rng, depth-1))
		}

		return out
	}

	out := JV{T: "o"}
	names := append([]string{}, subjNames...)
	if rng.Intn(4) == 0 {
		names = append(names, "x.y", "a b", "a-1")
	}

	for i, n := 0, rng.Intn(4); i < n && len(names) > 0; i++ {
		j := rng.Intn(len(names))
		out.O = append(out.O, JM{K: names[j], V: randValue(rng, depth-1)})
		names = append(names[:j], names[j+1:]...)
	}

	return out
}

// randDoc: a credential-shaped document (the members limit disclosure treats as mandatory + a random subject).
func randDoc(rng *hx.Rng) JV {
	doc := JV{T: "o"}
	doc.O = append(doc.O, JM{"@context", JV{T: "a", A: []JV{js("c1")}}})

	if rng.Intn(4) > 0 {
		doc.O = append(doc.O, JM{"id", js("urn:c" + strconv.Itoa(rng.Intn(3)))})
	}

	ty := JV{T: "a", A: []JV{js("VerifiableCredential")}}
	for i, n := 0, rng.Intn(3); i < n; i++ {
		ty.A = append(ty.A, js("T"+strconv.Itoa(2+i)))
	}

	doc.O = append(doc.O, JM{"type", ty})

	if rng.Bool() {
		doc.O = append(doc.O, JM{"issuer", js("did:ex:1")})
	} else {
		doc.O = append(doc.O, JM{"issuer", JV{T: "o", O: []JM{{"id", js("did:ex:1")}, {"name", js("ab")}}}})
	}

	subj := randValue(rng, 3)
	for subj.T != "o" || len(subj.O) == 0 {
		subj = randValue(rng, 3)
	}

	if rng.Intn(3) == 0 {
		// several subjects
		subj = JV{T: "a", A: []JV{subj, randValue(rng, 2)}}
	}

	// the position of credentialSubject among the members varies (document order matters to the streaming engine)
	at := rng.Intn(len(doc.O) + 1)
	doc.O = append(doc.O[:at], append([]JM{{"credentialSubject", subj}}, doc.O[at:]...)...)

	return doc
}

func notation(rng *hx.Rng, name string, kw bool) int {
	q := rng.Intn(8)

	switch {
	case !isIdent(name):
		if q%2 == 0 {
			return 2
		}

		return 1
	case q < 4:
		return 0
	case q < 6:
		return 2
	case q == 6:
		return 1
	default:
		if kw {
			return 3
		}

		return 0
	}
}

// randPath: a path to an existing node (usually), generalised or spoilt in one place.
func randPath(rng *hx.Rng, doc JV) []PStep {
	nodes := allNodes(node{nil, doc})
	n := nodes[1+rng.Intn(len(nodes)-1)]

	var steps []PStep

	for _, e := range n.loc {
		if e.isI {
			steps = append(steps, PStep{K: "idx", I: e.idx})
		} else {
			steps = append(steps, PStep{K: "name", S: e.key, Q: notation(rng, e.key, true)})
		}
	}

	i := rng.Intn(len(steps))

	switch rng.Intn(12) {
	case 0: // a member that does not exist / exists elsewhere
		steps[i] = PStep{K: "name", S: subjNames[rng.Intn(len(subjNames))]}
	case 1: // index off by one or far out
		steps[i] = PStep{K: "idx", I: steps[i].I + 1 + rng.Intn(2)}
	case 2, 3:
		steps[i] = PStep{K: "wildi"}
	case 4, 5:
		steps[i] = PStep{K: "wildn"}
	case 6:
		// recursive descent to the last name
		for j := len(steps) - 1; j >= 0; j-- {
			if steps[j].K == "name" && isIdent(steps[j].S) {
				steps = append(steps[:rng.Intn(j+1)], PStep{K: "desc", S: steps[j].S})
				steps = append(steps, n2steps(n.loc[j+1:], rng)...)

				break
			}
		}
	case 7: // one step deeper than the node
		steps = append(steps, PStep{K: "name", S: "a1"})
	case 8:
		steps = append(steps, PStep{K: "idx", I: 0})
	}

	return steps
}

func n2steps(l []lelem, rng *hx.Rng) []PStep {
	var out []PStep

	for _, e := range l {
		if e.isI {
			out = append(out, PStep{K: "idx", I: e.idx})
		} else {
			out = append(out, PStep{K: "name", S: e.key, Q: notation(rng, e.key, false)})
		}
	}

	return out
}

func randSchema(rng *hx.Rng, depth int) *JSchema {
	s := &JSchema{}
	p := func(n int64) *int64 { return &n }

	if rng.Intn(3) > 0 {
		s.Type = []string{"string", "number", "integer", "boolean", "array", "object", "null"}[rng.Intn(7)]
	}

	for k := 0; k < 2; k++ {
		switch rng.Intn(14) {
		case 0:
			v := randScalar(rng)
			for v.T == "z" { // "const": null cannot be told from an absent const in the Filter struct
				v = randScalar(rng)
			}

			s.Const = &v
		case 1:
			for i, n := 0, 1+rng.Intn(3); i < n; i++ {
				s.Enum = append(s.Enum, randScalar(rng))
			}
		case 2:
			s.Min = p(int64(rng.Intn(8)) - 2)
		case 3:
			s.Max = p(int64(rng.Intn(8)) - 2)
		case 4:
			s.EMin = p(int64(rng.Intn(8)) - 2)
		case 5:
			s.EMax = p(int64(rng.Intn(8)) - 2)
		case 6:
			s.MinLen = 1 + rng.Intn(3)
		case 7:
			s.MaxLen = 1 + rng.Intn(3)
		case 8:
			if depth > 0 {
				s.Not = randSchema(rng, depth-1)
				if len(s.Not.toMap()) == 0 { // an empty map is dropped by the Filter's omitempty
					s.Not.Type = "string"
				}
			}
		case 9:
			if depth > 0 {
				s.Contains = randSchema(rng, depth-1)
				if len(s.Contains.toMap()) == 0 {
					s.Contains.Type = "number"
				}
			}
		case 10:
			v := JV{T: "a", A: []JV{randScalar(rng)}}
			s.Const = &v
		}
	}

	return s
}

func genEngines(r *runner, rng *hx.Rng, thorough bool) {
	n, nf := 200, 200
	if thorough {
		n, nf = 3000, 3000
	}

	for i := 0; i < n; i++ {
		doc := randDoc(rng)
		c := JCase{Doc: doc}

		for k, np := 0, 1+rng.Intn(3); k < np; k++ {
			st := randPath(rng, doc)
			c.Steps = append(c.Steps, st)
			c.Paths = append(c.Paths, renderPath(st))
		}

		r.doJPath("engines", c, true)
	}

	for i := 0; i < nf; i++ {
		doc := randDoc(rng)
		c := JCase{Doc: doc, Field: true, Optional: rng.Intn(4) == 0}

		if i%3 != 0 {
			// a filter aimed at the value the first path selects: one keyword at its boundary (hit or near miss)
			nodes := allNodes(node{nil, doc})
			n := nodes[1+rng.Intn(len(nodes)-1)]
			st := n2steps(n.loc, rng)

			for j := range st {
				if st[j].K == "name" && st[j].Q == 1 && len(st[j].S) != 1 {
					st[j].Q = 2
				}
			}

			c.Steps = append(c.Steps, st)
			c.Paths = append(c.Paths, renderPath(st))
			c.Filter = targetedSchema(rng, n.v)

			if rng.Intn(3) == 0 {
				st2 := randPath(rng, doc)
				if definite(st2) {
					for j := range st2 {
						if st2[j].Q == 3 {
							st2[j].Q = 0
						}
					}

					c.Steps = append(c.Steps, st2)
					c.Paths = append(c.Paths, renderPath(st2))
				}
			}

			r.doJPath("field-aimed", c, true)

			continue
		}

		for k, np := 0, 1+rng.Intn(2); k < np; k++ {
			st := randPath(rng, doc)
			for j := range st { // filterField runs the filter engine only
				if st[j].Q == 3 {
					st[j].Q = 0
				}
			}

			c.Steps = append(c.Steps, st)
			c.Paths = append(c.Paths, renderPath(st))
		}

		if rng.Intn(6) > 0 {
			c.Filter = randSchema(rng, 2)

			for _, st := range c.Steps {
				if !definite(st) {
					c.Filter.stripOrder()
				}
			}
		}

		r.doJPath("field", c, true)
	}
}

// targetedSchema: a filter in which one keyword sits at its boundary for the value v (satisfied, or missed by one), the
// type usually being the value's own so that the keyword decides.
func targetedSchema(rng *hx.Rng, v JV) *JSchema {
	s := &JSchema{}
	p := func(n int64) *int64 { return &n }

	if rng.Intn(4) > 0 {
		s.Type = typeOf(v)
		if v.T == "n" && rng.Bool() {
			s.Type = "integer"
		}
	}

	other := func() JV {
		for {
			o := randScalar(rng)
			if o.T != "z" && o.canon() != v.canon() {
				return o
			}
		}
	}

	aim := func(t *JSchema) {
		k := rng.Intn(8)

		switch {
		case k == 0: // const: the value itself or another one
			c := v
			if rng.Bool() || v.T == "z" {
				c = other()
			}

			t.Const = &c
		case k == 1: // enum with or without the value
			t.Enum = []JV{other()}
			if rng.Bool() {
				t.Enum = append(t.Enum, v)
			}
		case k == 2: // the wrong / right type
			t.Type = []string{"string", "number", "integer", "boolean", "array", "object", "null", typeOf(v)}[rng.Intn(8)]
		case v.T == "s":
			n := len(v.S)

			switch rng.Intn(4) {
			case 0:
				t.MinLen = n + 1
			case 1:
				if n >= 1 {
					t.MinLen = n
				} else {
					t.MinLen = 1
				}
			case 2:
				if n >= 2 {
					t.MaxLen = n - 1
				} else {
					t.MaxLen = 1
				}
			default:
				if n >= 1 {
					t.MaxLen = n
				} else {
					t.MaxLen = 2
				}
			}
		case v.T == "n":
			z := v.N

			switch rng.Intn(8) {
			case 0:
				t.Min = p(z)
			case 1:
				t.Min = p(z + 1)
			case 2:
				t.Max = p(z)
			case 3:
				t.Max = p(z - 1)
			case 4:
				t.EMin = p(z)
			case 5:
				t.EMin = p(z - 1)
			case 6:
				t.EMax = p(z)
			default:
				t.EMax = p(z + 1)
			}
		case v.T == "a":
			sub := &JSchema{}

			if len(v.A) > 0 && rng.Intn(3) > 0 {
				e := v.A[rng.Intn(len(v.A))]
				if rng.Bool() && e.T != "z" {
					sub.Const = &e
				} else {
					sub.Type = typeOf(e)
				}
			} else {
				o := other()
				sub.Const = &o
			}

			t.Contains = sub
		default:
			t.Type = typeOf(v)
		}
	}

	if rng.Intn(4) == 0 {
		// the aimed keyword under a not
		s.Not = &JSchema{}
		aim(s.Not)

		if len(s.Not.toMap()) == 0 {
			s.Not.Type = typeOf(v)
		}
	} else {
		aim(s)
	}

	return s
}
