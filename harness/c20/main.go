// c20: drives the real presexch holder (CreateVP) and verifier (Match) on generated definitions x credential
// sets, and the requirementlogic iterator directly (through the verif export), for comparison with coq/C20.
package main

import (
	"encoding/json"
	"fmt"
	"os"
	"path/filepath"
	"sort"
	"strconv"
	"strings"

	"github.com/hyperledger/aries-framework-go/component/models/presexch"

	"verifharness/hx"
)

type replayFile struct {
	Note string `json:"note,omitempty"`
	Case *Case  `json:"case"`
	// Mode: "" CreateVP + Match, "array" CreateVPArray + merged submission, "msr" / "msr-apply" MatchSubmissionRequirement
	Mode string `json:"mode,omitempty"`
	// JP: a case of the engines stream (Mode "jpath")
	JP *JCase `json:"jp,omitempty"`
	// LM: a case of the limit stream (Mode "limit")
	LM *LCase `json:"lm,omitempty"`
}

func descByID(p Defn, id int) (Desc, bool) {
	for _, d := range p.Descs {
		if d.ID == id {
			return d, true
		}
	}

	return Desc{}, false
}

func predicateKeys(d Desc) map[int]bool {
	out := map[int]bool{}

	if d.Cons != nil {
		for _, f := range d.Cons.Fields {
			if f.Pred {
				for _, p := range f.Paths {
					out[p] = true
				}
			}
		}
	}

	return out
}

// derivedFrom: got is orig with (possibly) fewer credentialSubject members, values equal or replaced by true for
// predicate fields of the descriptor.
func derivedFrom(got, orig Cred, d Desc) string {
	if got.ID != orig.ID || got.Issuer != orig.Issuer || got.Subject != orig.Subject {
		return "id/issuer/subject differ from the holder's credential"
	}

	pk := predicateKeys(d)

	for _, a := range got.Attrs {
		v, ok := orig.get(a.K)
		if !ok {
			return fmt.Sprintf("member a%d is not in the holder's credential", a.K)
		}

		if v.T == "a" && a.V.T == "a" {
			// an array may come back shorter (limited disclosure keeps the requested elements and closes the gaps) or
			// with elements replaced by true (predicate on an element): every element shown must be one of the
			// holder's elements, each used at most once
			used := make([]bool, len(v.L))
			predOnElem := false

			for k := range pk {
				if k >= 1000 && k%1000 == a.K {
					predOnElem = true
				}
			}

			for _, e := range a.V.L {
				found := false

				for j, x := range v.L {
					if !used[j] && valEq(x, e) {
						used[j], found = true, true

						break
					}
				}

				if !found && !((predOnElem || pk[a.K]) && e.T == "b" && e.B) {
					return fmt.Sprintf("member %s shows an element the holder's array does not have", keyPath(a.K))
				}
			}

			continue
		}

		if !valEq(v, a.V) && !(pk[a.K] && a.V.T == "b" && a.V.B) {
			if a.V.T == "z" {
				return fmt.Sprintf("member %s is shown as null", keyPath(a.K))
			}

			return fmt.Sprintf("member %s changed", keyPath(a.K))
		}
	}

	return ""
}

// readableSatisfies: read as the verifier reads it, the credential shows, for every non-optional field of the
// descriptor, a member at one of the field's paths that passes the filter (or is the predicate's `true`).
func readableSatisfies(got Cred, d Desc) string {
	if d.Cons == nil {
		return ""
	}

	pk := predicateKeys(d) // a member named by a predicate field (of this descriptor) is shown as `true`

	for i, f := range d.Cons.Fields {
		if f.Optional {
			continue
		}

		ok := false

		for _, p := range f.Paths {
			if p >= 1000 {
				// an element of an array: limited disclosure closes the gaps, so the element is looked for by value
				if arr, has := got.get(p % 1000); has && arr.T == "a" {
					for _, e := range arr.L {
						if refFilter(f.Filter, e) || (pk[p] && e.T == "b" && e.B) {
							ok = true
						}
					}
				}

				continue
			}

			if v, has := got.get(p); has && (refFilter(f.Filter, v) || (pk[p] && v.T == "b" && v.B)) {
				ok = true
			}
		}

		if !ok {
			only := true
			for _, p := range f.Paths {
				only = only && p >= 1000
			}

			if only {
				return fmt.Sprintf("field %d (paths %v) is not readable in the credential [array element paths only]", i, f.Paths)
			}

			return fmt.Sprintf("field %d (paths %v) is not readable in the credential", i, f.Paths)
		}
	}

	return ""
}

// limitedOK: under limit_disclosure=required only requested members are readable, and an SD-JWT credential
// presents exactly one disclosure per readable member.
func limitedOK(got Cred, disclosures int, d Desc) (string, string) {
	if d.Cons == nil || d.Cons.Limit != 2 {
		return "", ""
	}

	rk := requestedKeys(d)
	for _, a := range got.Attrs {
		if rk[a.K] {
			continue
		}

		// elements of the array were requested, not the array: no more elements than requested ones may show
		asked := 0

		for k := range rk {
			if k >= 1000 && k%1000 == a.K {
				asked++
			}
		}

		if asked == 0 || a.V.T != "a" || len(a.V.L) > asked {
			return "limit-disclosure-reveals-unrequested-member",
				fmt.Sprintf("d%d requires limited disclosure of %v but the credential reveals %s (%d requested elements)", d.ID, rk, keyPath(a.K), asked)
		}
	}

	if got.SD && disclosures != len(got.Attrs) {
		return "sd-jwt-presents-disclosures-beyond-readable-claims",
			fmt.Sprintf("d%d: %d disclosures presented, %d members readable", d.ID, disclosures, len(got.Attrs))
	}

	return "", ""
}

func hasBBS(c Cred) bool {
	for _, p := range c.Proofs {
		if p == 3 {
			return true
		}
	}

	return false
}

// notShown: an SD-JWT array is one disclosure; a field that the holder's credential satisfies only through
// elements of arrays finds nothing to disclose (known finding)
func notShown(sig string, src Cred, why string, d Desc) string {
	if !src.SD || d.Cons == nil {
		return sig
	}

	var fi int
	if _, err := fmt.Sscanf(why, "field %d ", &fi); err != nil || fi >= len(d.Cons.Fields) {
		return sig
	}

	f := d.Cons.Fields[fi]

	for _, p := range f.Paths {
		if v, has := src.get(p); has && p < 1000 && refFilter(f.Filter, v) {
			return sig // a whole leaf satisfies the field: its disclosure should have been presented
		}
	}

	return "holder-presents-credential-not-showing-requested-field/sd-jwt-array-element-path"
}

// judge is the property's direct oracle on the implementation's behaviour.
// arrayAndElement: the descriptor names an array member and, elsewhere, an element of the same array.
func arrayAndElement(d Desc) bool {
	rk := requestedKeys(d)
	for k := range rk {
		if k >= 1000 && rk[k%1000] {
			return true
		}
	}

	return false
}

const sigArrayAndElement = "limited-or-predicate-credential-garbled/array-and-element-of-it-both-requested"

// judge classifies a failure on a definition that asks for an array and for an element of it under the known finding
// (the element is written at its compacted position over the array written whole, or the other way round).
func judge(c Case, o *Obs) (string, string) {
	sig, detail := judge0(c, o)
	if sig == "" {
		return sig, detail
	}

	for _, d := range c.Def.Descs {
		if arrayAndElement(d) && (strings.HasPrefix(sig, "holder-alters-credential") || strings.HasPrefix(sig, "match-alters-credential") ||
			strings.Contains(sig, "not-showing-requested-field") || strings.HasPrefix(sig, "limit-disclosure-reveals")) {
			return sigArrayAndElement, detail
		}
	}

	return sig, detail
}

func judge0(c Case, o *Obs) (string, string) {
	if o.Create != "vp" {
		return "", "" // the holder produced nothing: the property says nothing
	}

	// every included credential is referenced, and satisfies the descriptor it is placed under
	refd := map[int]bool{}
	selected := map[int]bool{}

	for _, m := range o.Maps {
		selected[m.ID] = true

		d, ok := descByID(c.Def, m.ID)
		if !ok {
			return "holder-maps-unknown-descriptor", fmt.Sprintf("descriptor d%d is not in the definition", m.ID)
		}

		if m.Idx >= len(o.Creds) {
			return "holder-maps-missing-credential", fmt.Sprintf("d%d -> index %d of %d", m.ID, m.Idx, len(o.Creds))
		}

		refd[m.Idx] = true
		src := o.Src[m.Idx]

		if src < 0 || src >= len(c.Creds) {
			return "credential-of-unknown-origin", fmt.Sprintf("index %d", m.Idx)
		}

		if !refSatisfies(c.Def, d, c.Creds[src]) {
			sig := "holder-places-unsatisfying-credential"
			if c.Creds[src].ID == 0 {
				sig += "/credentials-without-id-merged"
			}

			return sig, fmt.Sprintf("d%d is mapped to verifiableCredential[%d] = holder credential #%d, which does not satisfy d%d", m.ID, m.Idx, src, m.ID)
		}

		if c.Creds[src].MapSubject {
			// the whole subject of such a credential goes into the limited credential (known finding): judged first,
			// what is then written over the full arrays is part of the same leak
			if sig, why := limitedOK(o.Creds[m.Idx], o.Disc[m.Idx], d); sig != "" {
				return sig + "/subject-held-as-map", fmt.Sprintf("verifiableCredential[%d]: %s", m.Idx, why)
			}
		}

		if why := derivedFrom(o.Creds[m.Idx], c.Creds[src], d); why != "" {
			sig := "holder-alters-credential"
			if hasBBS(c.Creds[src]) && strings.HasSuffix(why, "is shown as null") {
				sig += "/bbs-derived-non-string-member-null"
			}

			return sig, fmt.Sprintf("d%d -> [%d]: %s", m.ID, m.Idx, why)
		}

		if why := readableSatisfies(o.Creds[m.Idx], d); why != "" {
			return notShown("holder-presents-credential-not-showing-requested-field", c.Creds[src], why, d), fmt.Sprintf("d%d -> [%d]: %s", m.ID, m.Idx, why)
		}

		if sig, why := limitedOK(o.Creds[m.Idx], o.Disc[m.Idx], d); sig != "" {
			if c.Creds[src].MapSubject {
				sig += "/subject-held-as-map"
			}

			return sig, fmt.Sprintf("verifiableCredential[%d]: %s", m.Idx, why)
		}
	}

	for i := range o.Creds {
		if !refd[i] {
			return "unreferenced-credential-included", fmt.Sprintf("verifiableCredential[%d] is under no descriptor", i)
		}
	}

	if o.Match != "ok" {
		sig := fmt.Sprintf("match-rejects-holder-output/code%d", o.MatchC)
		if o.MatchC == 4 && len(selected) < len(c.Def.Descs) {
			sig = "match-rejects-holder-output/requirement-satisfied-without-every-descriptor"
		}

		return sig, "CreateVP succeeded, Match on its output failed: " + o.MatchErr
	}

	if len(o.Matched) != len(selected) {
		return "match-returns-other-descriptors", fmt.Sprintf("holder selected %d descriptors, Match returned %d", len(selected), len(o.Matched))
	}

	for i, m := range o.Matched {
		d, ok := descByID(c.Def, m.ID)
		if !ok || !selected[m.ID] {
			return "match-returns-other-descriptors", fmt.Sprintf("d%d", m.ID)
		}

		src := o.MSrc[i]
		if src < 0 || src >= len(c.Creds) {
			return "credential-of-unknown-origin", fmt.Sprintf("match d%d", m.ID)
		}

		if !refSatisfies(c.Def, d, c.Creds[src]) {
			sig := "match-returns-unsatisfying-credential"
			if c.Creds[src].ID == 0 {
				sig += "/credentials-without-id-merged"
			}

			return sig, fmt.Sprintf("Match returns holder credential #%d for d%d, which does not satisfy it", src, m.ID)
		}

		if c.Creds[src].MapSubject {
			if sig, why := limitedOK(m.Cred, o.MDisc[i], d); sig != "" {
				return sig + "/subject-held-as-map", "Match: " + why
			}
		}

		if why := derivedFrom(m.Cred, c.Creds[src], d); why != "" {
			return "match-alters-credential", fmt.Sprintf("d%d: %s", m.ID, why)
		}

		if why := readableSatisfies(m.Cred, d); why != "" {
			return notShown("match-returns-credential-not-showing-requested-field", c.Creds[src], why, d), fmt.Sprintf("d%d: %s", m.ID, why)
		}

		if sig, why := limitedOK(m.Cred, o.MDisc[i], d); sig != "" {
			if c.Creds[src].MapSubject {
				sig += "/subject-held-as-map"
			}

			return sig, "Match: " + why
		}
	}

	return "", ""
}

func coqCase(c Case, o *Obs) string {
	var create, match string

	switch o.Create {
	case "vp":
		create = fmt.Sprintf("(OVp %s %s %s)", hx.CoqN(o.Fmt), coqCreds(o.Creds), coqMappings(o.Maps))
	case "nofrom":
		create = "ONoFrom"
	case "nocreds":
		create = "ONoCreds"
	default:
		create = "OOther"
	}

	switch o.Match {
	case "ok":
		match = "(OM " + coqMatched(o.Matched) + ")"
	case "err":
		match = "(OMErr " + hx.CoqN(o.MatchC) + ")"
	default:
		match = "OMNone"
	}

	return fmt.Sprintf("Px {| k_def := %s; k_creds := %s; k_create := %s; k_disable := %s; k_match := %s |}",
		coqDefn(c.Def), coqCreds(c.Creds), create, hx.CoqBool(o.Disable), match)
}

type runner struct {
	e     *env
	tr    *hx.Trace
	coqN  int
	coqA  int
	coqM  int
	n     int
	maxCq int
	// all: run every entry point (CreateVP, CreateVPArray, MatchSubmissionRequirement) on the case
	all bool
}

func (r *runner) do(kind string, c Case, withCoq bool) {
	if !strings.HasPrefix(kind, "corpus") && kind != "replay" {
		normalize(&c.Def)
	}

	for i := range c.Creds {
		if c.Creds[i].SD { // an SD-JWT credential is a JWT (EdDSA here), carries no linked-data proof
			c.Creds[i].JWT, c.Creds[i].Proofs, c.Creds[i].MapSubject = 1, nil, false
		}

		if c.Creds[i].JWT != 0 || len(c.Creds[i].Proofs) > 0 {
			c.Creds[i].MapSubject = false
		}

		for _, pt := range c.Creds[i].Proofs {
			if pt == 3 {
				// BBS+ credentials: flat scalar members only. JSON-LD framing gives nested objects without an id a blank
				// node id and treats arrays as sets, which this harness' projection of members does not follow.
				var keep []Attr

				for _, a := range c.Creds[i].Attrs {
					if a.K < 100 && a.V.T != "a" {
						keep = append(keep, a)
					}
				}

				c.Creds[i].Attrs = keep
			}
		}

		for j := range c.Creds[i].Attrs {
			c.Creds[i].Attrs[j].V = c.Creds[i].Attrs[j].V.norm()
		}

		sortAttrs(c.Creds[i].Attrs)
	}

	o, err := r.e.runCase(c, false)
	if err != nil {
		// the harness could not build or project the case: a defect of the generator/harness, reported loudly
		r.tr.Put(&hx.Record{Kind: kind, Case: replayFile{Case: &c}, Oracle: "fail", Sig: "harness-error",
			Detail: err.Error(), Class: "harness-error"})

		return
	}

	sig, detail := judge(c, o)
	rec := &hx.Record{Kind: kind, Case: replayFile{Case: &c}, Observed: o, Class: classOf(c, o), Trivial: o.Create != "vp"}

	if sig != "" {
		rec.Oracle, rec.Sig, rec.Detail = "fail", sig, detail
	}

	// the model follows BBS+ derivation at the level of string members only (known finding: others come back null)
	for _, cr := range c.Creds {
		if hasBBS(cr) {
			for _, a := range cr.Attrs {
				if a.V.T != "s" {
					withCoq = false
				}
			}
		}
	}

	// CreateVP failing inside the BBS+ derivation (JSON-LD framing of the reveal document) is a holder-side failure the
	// member-level model does not follow: the property says nothing there, the case is kept for the statistics only
	if o.Create == "other" {
		for _, cr := range c.Creds {
			if hasBBS(cr) {
				withCoq = false
			}
		}
	}

	if withCoq && r.coqN < r.maxCq {
		rec.Coq = coqCase(c, o)
		r.coqN++
	}

	rec.Dist = distOf(c, o)
	r.tr.Put(rec)

	// the other public entry points of the same exchange, on a third of the cases
	r.n++

	if (r.n%4 == 0 || r.all) && o.Create != "other" {
		r.doArray(kind, c, withCoq)
	}

	if r.n%4 == 2 || r.all {
		r.doMSR(kind, c, r.n%8 == 2, withCoq)
	}
}

// doArray: CreateVPArray (one presentation per credential, one merged submission) and Match with that submission.
func (r *runner) doArray(kind string, c Case, withCoq bool) {
	o, err := r.e.runCase(c, true)
	if err != nil {
		r.tr.Put(&hx.Record{Kind: kind + "/array", Case: replayFile{Case: &c, Mode: "array"}, Oracle: "fail", Sig: "harness-error",
			Detail: err.Error(), Class: "harness-error"})

		return
	}

	sig, detail := judge(c, o)
	rec := &hx.Record{Kind: kind + "/array", Case: replayFile{Case: &c, Mode: "array"}, Observed: o, Class: "array/" + classOf(c, o),
		Trivial: o.Create != "vp", Dist: []string{"entry:CreateVPArray+merged-submission"}}

	if sig != "" {
		rec.Oracle, rec.Sig, rec.Detail = "fail", sig, "CreateVPArray + merged submission: "+detail
	}

	if withCoq && r.coqA < r.maxCq/4 && o.Create != "other" {
		rec.Coq = "A" + coqCase(c, o)[1:]
		r.coqA++
	}

	r.tr.Put(rec)
}

// doMSR: MatchSubmissionRequirement, with and without WithSelectiveDisclosureApply.
func (r *runner) doMSR(kind string, c Case, apply bool, withCoq bool) {
	mode := "msr"
	if apply {
		mode = "msr-apply"
	}

	o, err := r.e.runMSR(c, apply)
	if err != nil {
		r.tr.Put(&hx.Record{Kind: kind + "/" + mode, Case: replayFile{Case: &c, Mode: mode}, Oracle: "fail", Sig: "harness-error",
			Detail: err.Error(), Class: "harness-error"})

		return
	}

	rec := &hx.Record{Kind: kind + "/" + mode, Case: replayFile{Case: &c, Mode: mode}, Observed: o,
		Class: fmt.Sprintf("%s/%s/%d", mode, shape(c), len(o.Descs)), Trivial: o.Err != "", Dist: []string{"entry:MatchSubmissionRequirement"}}

	out := "None"

	if o.Err == "" {
		var items []string

		for _, md := range o.Descs {
			d, ok := descByID(c.Def, md.ID)
			if !ok {
				rec.Oracle, rec.Sig, rec.Detail = "fail", "msr-reports-unknown-descriptor", fmt.Sprintf("d%d", md.ID)

				break
			}

			for i, got := range md.Creds {
				src := md.Src[i]

				switch {
				case src < 0 || src >= len(c.Creds):
					rec.Oracle, rec.Sig, rec.Detail = "fail", "msr-credential-of-unknown-origin", fmt.Sprintf("d%d[%d]", md.ID, i)
				case !refSatisfies(c.Def, d, c.Creds[src]):
					rec.Oracle, rec.Sig = "fail", "msr-reports-unsatisfying-credential"
					rec.Detail = fmt.Sprintf("holder credential #%d is reported under d%d, which it does not satisfy", src, md.ID)
				case apply && c.Creds[src].MapSubject && func() bool { sg, _ := limitedOK(got, md.Disc[i], d); return sg != "" }():
					sg, why := limitedOK(got, md.Disc[i], d)
					rec.Oracle, rec.Sig, rec.Detail = "fail", sg+"/subject-held-as-map", fmt.Sprintf("d%d[%d]: %s", md.ID, i, why)
				default:
					if why := derivedFrom(got, c.Creds[src], d); why != "" {
						rec.Oracle, rec.Sig, rec.Detail = "fail", "msr-alters-credential", fmt.Sprintf("d%d[%d]: %s", md.ID, i, why)
						if hasBBS(c.Creds[src]) && strings.HasSuffix(why, "is shown as null") {
							rec.Sig = "holder-alters-credential/bbs-derived-non-string-member-null"
						}
					} else if apply {
						if sg, why := limitedOK(got, md.Disc[i], d); sg != "" {
							if c.Creds[src].MapSubject {
								sg += "/subject-held-as-map"
							} else {
								sg = "msr:" + sg
							}

							rec.Oracle, rec.Sig, rec.Detail = "fail", sg, fmt.Sprintf("d%d[%d]: %s", md.ID, i, why)
						} else if why := readableSatisfies(got, d); why != "" {
							rec.Oracle, rec.Sig, rec.Detail = "fail", notShown("msr-credential-not-showing-requested-field", c.Creds[src], why, d), fmt.Sprintf("d%d[%d]: %s", md.ID, i, why)
						}
					}
				}
			}

			items = append(items, fmt.Sprintf("(%s, %s)", hx.CoqN(md.ID), coqCreds(md.Creds)))
		}

		out = "(Some " + hx.CoqList(items) + ")"
	} else if !strings.Contains(o.Err, "no descriptors for from") {
		// a failure inside limit disclosure (BBS+ derivation): outside the model
		withCoq = false
	}

	if rec.Oracle == "fail" {
		for _, d := range c.Def.Descs {
			if arrayAndElement(d) && (strings.Contains(rec.Sig, "alters-credential") || strings.Contains(rec.Sig, "not-showing-requested-field") ||
				strings.Contains(rec.Sig, "limit-disclosure-reveals")) {
				rec.Sig = sigArrayAndElement
			}
		}
	}

	if withCoq && r.coqM < r.maxCq/4 {
		rec.Coq = fmt.Sprintf("Mx {| m_def := %s; m_creds := %s; m_apply := %s; m_out := %s |}", coqDefn(c.Def), coqCreds(c.Creds),
			hx.CoqBool(apply), out)
		r.coqM++
	}

	r.tr.Put(rec)
}

func classOf(c Case, o *Obs) string {
	var b strings.Builder

	b.WriteString(shape(c))
	b.WriteString("/" + o.Create)

	for _, m := range o.Maps {
		fmt.Fprintf(&b, ",%d>%d", m.ID, m.Idx)
	}

	for _, r := range c.Def.Reqs {
		fmt.Fprintf(&b, "/%v.%d.%d.%d.%d.%d", r.All, r.Count, r.Min, r.Max, r.From, len(r.Nested))
	}

	for _, d := range c.Def.Descs {
		if d.Cons != nil {
			fmt.Fprintf(&b, "/k%d.%d.%d", d.Cons.Limit, d.Cons.SII, len(d.Cons.Fields))
		}
	}

	return b.String()
}

func distOf(c Case, o *Obs) []string {
	d := []string{"create:" + o.Create, fmt.Sprintf("descriptors:%d", len(c.Def.Descs)), fmt.Sprintf("credentials:%d", len(c.Creds))}

	if len(c.Def.Reqs) == 0 {
		d = append(d, "rule:none")
	}

	var walk func(s SReq, depth int)
	walk = func(s SReq, depth int) {
		switch {
		case s.All:
			d = append(d, "rule:all")
		case s.Count > 0:
			d = append(d, "rule:pick-count")
		default:
			d = append(d, "rule:pick-min-max")
		}

		if depth > 0 {
			d = append(d, "rule:nested")
		}

		for _, n := range s.Nested {
			walk(n, depth+1)
		}
	}

	for _, s := range c.Def.Reqs {
		walk(s, 0)
	}

	for _, x := range c.Def.Descs {
		if x.Cons != nil {
			if x.Cons.Limit == 2 {
				d = append(d, "limit_disclosure")
			}

			if x.Cons.SII == 2 {
				d = append(d, "subject_is_issuer")
			}

			for _, f := range x.Cons.Fields {
				if f.Pred {
					d = append(d, "predicate")
				}

				if f.Optional {
					d = append(d, "optional-field")
				}
			}
		}

		if x.Format != nil {
			d = append(d, "descriptor-format")
		}
	}

	if c.Def.Format != nil {
		d = append(d, "definition-format")
	}

	for _, x := range c.Creds {
		if x.MapSubject {
			d = append(d, "cred:subject-held-as-map")
		}

		for _, a := range x.Attrs {
			if a.K >= 100 {
				d = append(d, "cred:nested-member")

				break
			}
		}

		for _, a := range x.Attrs {
			if a.V.T == "a" {
				d = append(d, "cred:array-member")

				break
			}
		}

		switch {
		case len(x.Proofs) > 0 && x.Proofs[len(x.Proofs)-1] == 3:
			d = append(d, "cred:bbs+")
		case x.SD:
			d = append(d, "cred:sd-jwt")
		case x.JWT != 0:
			d = append(d, "cred:jwt")
		case len(x.Proofs) > 0:
			d = append(d, "cred:ldp-signed")
		default:
			d = append(d, "cred:ldp-unsigned")
		}

		if x.ID == 0 {
			d = append(d, "cred:no-id")
		}

		if x.Ctx == 2 {
			d = append(d, "cred:second-context")
		}
	}

	if o.Create == "vp" && len(o.Maps) < len(c.Def.Descs) {
		d = append(d, "selected:proper-subset")
	}

	return d
}

func main() {
	a := hx.ParseArgs()
	tr := hx.NewTrace(a.Out)

	defer tr.Close()

	e := newEnv()
	r := &runner{e: e, tr: tr, maxCq: 3400}

	if a.Tier == "thorough" {
		r.maxCq = 12000
	}

	if a.Replay != "" {
		b, err := os.ReadFile(a.Replay)
		must(err)

		var rf replayFile

		// a replay file written by bin/check wraps the record's case ({"case": {"case": ..., "mode": ...}});
		// corpus files carry the case directly
		var wrapped struct {
			Case *replayFile `json:"case"`
		}

		if json.Unmarshal(b, &wrapped) == nil && wrapped.Case != nil && (wrapped.Case.Case != nil || wrapped.Case.JP != nil || wrapped.Case.LM != nil) {
			rf = *wrapped.Case
		} else {
			must(json.Unmarshal(b, &rf))
		}

		if rf.JP != nil {
			r.doJPath("replay", *rf.JP, true)

			return
		}

		if rf.LM != nil {
			r.doLimit("replay", *rf.LM, true)

			return
		}

		if rf.Case == nil {
			fmt.Fprintln(os.Stderr, "replay file has no case")
			os.Exit(2)
		}

		switch rf.Mode {
		case "array":
			r.doArray("replay", *rf.Case, true)
		case "msr":
			r.doMSR("replay", *rf.Case, false, true)
		case "msr-apply":
			r.doMSR("replay", *rf.Case, true, true)
		default:
			r.n = 0 // no extra entry points on a replay
			r.do("replay", *rf.Case, true)
		}

		return
	}

	// corpus first
	if a.Extra != "" {
		files, _ := filepath.Glob(filepath.Join(a.Extra, "*.json"))
		sort.Strings(files)

		for _, f := range files {
			b, err := os.ReadFile(f)
			must(err)

			var rf replayFile
			must(json.Unmarshal(b, &rf))

			if rf.JP != nil {
				r.doJPath("corpus:"+filepath.Base(f), *rf.JP, true)
			} else if rf.LM != nil {
				r.doLimit("corpus:"+filepath.Base(f), *rf.LM, true)
			} else if rf.Case != nil {
				r.do("corpus:"+filepath.Base(f), *rf.Case, true)
			}
		}
	}

	rng := hx.NewRng(a.Seed)
	thorough := a.Tier == "thorough"

	genEngines(r, rng.Fork(9), thorough)
	genLimit(r, rng.Fork(10), thorough)

	if os.Getenv("C20_ONLY") == "engines" { // development aid: only the engines stream
		return
	}

	genDeep(r, rng.Fork(11), thorough)
	genRequirements(r, rng.Fork(1), thorough)
	genConstraints(r, rng.Fork(2), thorough)
	genFormats(r, rng.Fork(3), thorough)
	genSizes(r, rng.Fork(7), thorough)
	genContexts(r, rng.Fork(8), thorough)
	genDisclosure(r, rng.Fork(6), thorough)
	genRandom(r, rng.Fork(4), thorough)
	genIterator(r, rng.Fork(5), thorough)

	fmt.Printf("c20: %d records, %d through Coq\n", tr.N(), r.coqN)
}

// ---------- requirement logic driven directly ----------

func toVerifReq(q Req) *presexch.VerifReq {
	out := &presexch.VerifReq{Count: q.Count, Min: q.Min, Max: q.Max}
	for _, id := range q.IDs {
		out.IDs = append(out.IDs, "d"+strconv.Itoa(id))
	}

	for _, n := range q.Nested {
		out.Nested = append(out.Nested, toVerifReq(n))
	}

	return out
}

func fromVerifReq(q *presexch.VerifReq) Req {
	out := Req{Count: q.Count, Min: q.Min, Max: q.Max}
	for _, id := range q.IDs {
		n, _ := atoiSuffix(id, "d")
		out.IDs = append(out.IDs, n)
	}

	for _, n := range q.Nested {
		out.Nested = append(out.Nested, fromVerifReq(n))
	}

	return out
}

func dnames(ids []int) []string {
	out := []string{}
	for _, id := range ids {
		out = append(out, "d"+strconv.Itoa(id))
	}

	return out
}

func dnums(ids []string) []int {
	out := []int{}
	for _, id := range ids {
		n, _ := atoiSuffix(id, "d")
		out = append(out, n)
	}

	return out
}

type iterStep struct {
	Ex  []int `json:"ex"`
	Out []int `json:"out"`
}

type iterCase struct {
	Req   Req        `json:"req"`
	Descs []int      `json:"descs"`
	Sat   []int      `json:"satisfiable"`
	Steps []iterStep `json:"steps"`
}

func isSat(q Req, set map[int]bool) bool {
	// independent reference of the rule semantics: count exact when > 0, min/max inclusive when > 0
	val := 0

	if len(q.Nested) == 0 {
		seen := map[int]bool{}
		for _, id := range q.IDs {
			if set[id] && !seen[id] {
				seen[id] = true
				val++
			}
		}
	} else {
		for _, n := range q.Nested {
			if isSat(n, set) {
				val++
			}
		}
	}

	if q.Count > 0 && val != q.Count {
		return false
	}

	if q.Min > 0 && val < q.Min {
		return false
	}

	if q.Max > 0 && val > q.Max {
		return false
	}

	return true
}

// runIter plays the holder's protocol against the real iterator: a descriptor outside `sat` found in a solution is
// excluded on the next call (multi = exclude every such descriptor of the solution at once).
func runIter(q Req, descs []int, sat map[int]bool, multi bool) (iterCase, string, string) {
	next := presexch.VerifIterator(toVerifReq(q), dnames(descs))
	ic := iterCase{Req: q, Descs: descs}

	for k := range sat {
		ic.Sat = append(ic.Sat, k)
	}

	sort.Ints(ic.Sat)

	var ex []int

	excluded := map[int]bool{}
	seen := map[string]bool{}

	for n := 0; n < 4096; n++ {
		out := dnums(next(dnames(ex)))
		ic.Steps = append(ic.Steps, iterStep{Ex: ex, Out: out})

		if len(out) == 0 {
			// complete: every satisfying subset of the satisfiable descriptors must have been offered
			return ic, "", ""
		}

		set := map[int]bool{}
		for _, id := range out {
			set[id] = true

			if excluded[id] {
				return ic, "iterator-returns-excluded-descriptor", fmt.Sprintf("d%d after exclusion", id)
			}
		}

		if !isSat(q, set) {
			return ic, "iterator-returns-unsatisfying-set", fmt.Sprintf("%v", out)
		}

		key := fmt.Sprint(out)
		if seen[key] {
			return ic, "iterator-repeats-solution", key
		}

		seen[key] = true
		ex = nil

		for _, id := range out {
			if !sat[id] {
				ex = append(ex, id)
				excluded[id] = true

				if !multi {
					break
				}
			}
		}

		if len(ex) == 0 && allIn(out, sat) {
			return ic, "", "" // the holder would stop here
		}
	}

	return ic, "iterator-does-not-terminate", "4096 calls"
}

func allIn(ids []int, s map[int]bool) bool {
	for _, id := range ids {
		if !s[id] {
			return false
		}
	}

	return true
}

func coqIter(ic iterCase) string {
	st := make([]string, len(ic.Steps))
	for i, s := range ic.Steps {
		st[i] = fmt.Sprintf("(%s, %s)", hx.CoqNList(s.Ex), hx.CoqNList(s.Out))
	}

	return fmt.Sprintf("Ix {| i_req := %s; i_descs := %s; i_steps := %s |}", coqReq(ic.Req), hx.CoqNList(ic.Descs), hx.CoqList(st))
}
