package main

import (
	"encoding/json"
	"os"
	"errors"
	"fmt"
	"sort"
	"strconv"
	"strings"
	"time"

	"github.com/piprate/json-gold/ld"

	"crypto/sha256"

	"github.com/hyperledger/aries-framework-go/component/kmscrypto/crypto/primitive/bbs12381g2pub"
	"github.com/hyperledger/aries-framework-go/component/kmscrypto/doc/util/fingerprint"
	"github.com/hyperledger/aries-framework-go/component/models/signature/suite/bbsblssignature2020"
	ldcontext "github.com/hyperledger/aries-framework-go/component/models/ld/context"
	"github.com/hyperledger/aries-framework-go/component/models/ld/processor"
	"github.com/hyperledger/aries-framework-go/component/models/ld/testutil"
	"github.com/hyperledger/aries-framework-go/component/models/presexch"
	"github.com/hyperledger/aries-framework-go/component/models/signature/suite"
	"github.com/hyperledger/aries-framework-go/component/models/signature/suite/ed25519signature2018"
	"github.com/hyperledger/aries-framework-go/component/models/signature/suite/jsonwebsignature2020"
	sigutil "github.com/hyperledger/aries-framework-go/component/models/signature/util"
	"github.com/hyperledger/aries-framework-go/component/models/verifiable"
	"github.com/hyperledger/aries-framework-go/spi/kms"
)

const (
	ctxURL  = "https://verif.example/c20/v1"
	ctxURL2 = "https://verif.example/c20/v2"
	vocab   = "https://verif.example/c20#"
	vocab2  = "https://verif.example/c20-other#"
	vcIRI   = "https://www.w3.org/2018/credentials#VerifiableCredential"
	nAttrs  = 8
	baseSec = 1577836800 // 2020-01-01T00:00:00Z; issuanceDate = base + index identifies the holder's credential
)

var proofNames = map[int]string{1: "Ed25519Signature2018", 2: "JsonWebSignature2020", 3: "BbsBlsSignature2020", 4: "BbsBlsSignatureProof2020"}
var algNames = map[int]string{1: "EdDSA", 2: "ES256", 3: "ES384"}

func typeName(t int) string {
	if t == 1 {
		return "VerifiableCredential"
	}

	return "T" + strconv.Itoa(t)
}

// schemaURI: code t is the IRI of type code t (code 9: an IRI no credential type maps to).
func schemaURI(t int) string {
	if t == 1 {
		return vcIRI
	}

	if t == 12 || t == 14 { // what the second context makes of the terms T2 and T4
		return vocab2 + "T" + strconv.Itoa(t-10)
	}

	return vocab + "T" + strconv.Itoa(t)
}

type env struct {
	loader  ld.DocumentLoader
	ed      sigutil.Signer
	p256    sigutil.Signer
	edDID   string
	edVM    string
	credOpt []verifiable.CredentialOpt
	// lastDisc: number of SD-JWT disclosures of the credential projectCred saw last (0 for other credentials)
	lastDisc int
	issued   map[string][]byte
	bbsPriv  []byte
	bbsPub   []byte
}

// bbsSigner signs the canonical statements of a document with BBS+ (one message per line).
type bbsSigner struct{ priv []byte }

func (b *bbsSigner) Sign(data []byte) ([]byte, error) {
	var msgs [][]byte

	for _, l := range strings.Split(string(data), "\n") {
		if strings.TrimSpace(l) != "" {
			msgs = append(msgs, []byte(l))
		}
	}

	return bbs12381g2pub.New().Sign(msgs, b.priv)
}

func (b *bbsSigner) Alg() string { return "" }

func newEnv() *env {
	terms := map[string]interface{}{"@version": 1.1}
	for k := 1; k <= nAttrs; k++ {
		terms["a"+strconv.Itoa(k)] = vocab + "a" + strconv.Itoa(k)
	}

	for t := 2; t <= 4; t++ {
		terms["T"+strconv.Itoa(t)] = vocab + "T" + strconv.Itoa(t)
	}

	for o := 1; o <= 9; o++ {
		terms["o"+strconv.Itoa(o)] = vocab + "o" + strconv.Itoa(o)
	}

	content, err := json.Marshal(map[string]interface{}{"@context": terms})
	must(err)

	// the second context: the same terms; T2 and T4 stand for other IRIs, T3 for the same one
	terms2 := map[string]interface{}{}
	for k, v := range terms {
		terms2[k] = v
	}

	terms2["T2"] = vocab2 + "T2"
	terms2["T4"] = vocab2 + "T4"

	content2, err := json.Marshal(map[string]interface{}{"@context": terms2})
	must(err)

	loader, err := testutil.DocumentLoader(ldcontext.Document{URL: ctxURL, Content: content},
		ldcontext.Document{URL: ctxURL2, Content: content2})
	must(err)

	ed, err := sigutil.NewSigner(kms.ED25519Type)
	must(err)

	p256, err := sigutil.NewSigner(kms.ECDSAP256TypeIEEEP1363)
	must(err)

	did, vm := fingerprint.CreateDIDKeyByCode(fingerprint.ED25519PubKeyMultiCodec, ed.PublicKeyBytes())

	e := &env{loader: loader, ed: ed, p256: p256, edDID: did, edVM: vm, issued: map[string][]byte{}}

	seed := sha256.Sum256([]byte("verif c20 bbs issuer key"))
	bpub, bpriv, err := bbs12381g2pub.GenerateKeyPair(sha256.New, seed[:])
	must(err)

	e.bbsPub, err = bpub.Marshal()
	must(err)
	e.bbsPriv, err = bpriv.Marshal()
	must(err)

	// the public key fetcher serves the BBS+ issuer key: the holder derives selective-disclosure proofs with it
	e.credOpt = []verifiable.CredentialOpt{verifiable.WithJSONLDDocumentLoader(loader), verifiable.WithDisabledProofCheck(),
		verifiable.WithPublicKeyFetcher(verifiable.SingleKey(e.bbsPub, "Bls12381G2Key2020"))}

	return e
}

func must(err error) {
	if err != nil {
		panic(err)
	}
}

func valJSON(v Val) interface{} {
	switch v.T {
	case "n":
		return v.N
	case "s":
		return "s" + strconv.Itoa(v.S)
	case "a":
		out := []interface{}{}
		for _, x := range v.norm().L {
			out = append(out, valJSON(x))
		}

		return out
	default:
		return v.B
	}
}

// keyPath is the dotted member path of a leaf key below credentialSubject.
func keyPath(k int) string {
	if k >= 1000 {
		return keyPath(k%1000) + "[" + strconv.Itoa(k/1000-1) + "]"
	}

	if k >= 100 {
		return "o" + strconv.Itoa(k/100) + ".a" + strconv.Itoa(k%100)
	}

	return "a" + strconv.Itoa(k)
}

func didOf(n int) string { return "did:ex:" + strconv.Itoa(n) }

func credContexts(c Cred) []interface{} {
	out := []interface{}{verifiable.ContextURI, ctxURL}
	if c.Ctx == 2 {
		out[1] = ctxURL2
	}

	for _, p := range c.Proofs {
		if p == 3 {
			out = append(out, "https://w3id.org/security/bbs/v1")
		}
	}

	return out
}

// credJSON is the credential as an issuer would serialise it.
func credJSON(c Cred, idx int) map[string]interface{} {
	types := make([]interface{}, len(c.Types))
	for i, t := range c.Types {
		types[i] = typeName(t)
	}

	subj := map[string]interface{}{}
	if c.Subject != 0 {
		subj["id"] = didOf(c.Subject)
	}

	for _, a := range c.Attrs {
		if a.K >= 100 {
			o := "o" + strconv.Itoa(a.K/100)
			if _, ok := subj[o]; !ok {
				subj[o] = map[string]interface{}{}
			}

			subj[o].(map[string]interface{})["a"+strconv.Itoa(a.K%100)] = valJSON(a.V)

			continue
		}

		subj["a"+strconv.Itoa(a.K)] = valJSON(a.V)
	}

	m := map[string]interface{}{
		"@context":          credContexts(c),
		"type":              types,
		"issuer":            didOf(c.Issuer),
		"issuanceDate":      time.Unix(baseSec+int64(idx), 0).UTC().Format(time.RFC3339),
		"credentialSubject": subj,
	}

	if c.ID != 0 {
		m["id"] = "urn:c:" + strconv.Itoa(c.ID)
	}

	return m
}

// buildCred makes the holder's credential object: issuer JSON -> (real proofs / real JWS) -> ParseCredential.
// buildCred: the issued form (JWS / SD-JWT combined format / signed JSON) is made once per distinct credential
// and cached; the holder parses it anew for every entry point, so no object is shared between runs.
func (e *env) buildCred(c Cred, idx int) (*verifiable.Credential, error) {
	keyBytes, _ := json.Marshal(c)
	key := strconv.Itoa(idx) + string(keyBytes)

	issued, ok := e.issued[key]
	if !ok {
		var err error

		issued, err = e.issueCred(c, idx)
		if err != nil {
			return nil, err
		}

		if len(e.issued) > 4096 {
			e.issued = map[string][]byte{}
		}

		e.issued[key] = issued
	}

	vc, err := verifiable.ParseCredential(issued, e.credOpt...)
	if err != nil {
		return nil, fmt.Errorf("holder parses the issued credential: %w", err)
	}

	if c.MapSubject {
		vc.Subject = credJSON(c, idx)["credentialSubject"]
	}

	return vc, nil
}

func (e *env) issueCred(c Cred, idx int) ([]byte, error) {
	raw, err := json.Marshal(credJSON(c, idx))
	if err != nil {
		return nil, err
	}

	vc, err := verifiable.ParseCredential(raw, e.credOpt...)
	if err != nil {
		return nil, fmt.Errorf("parse issuer json: %w", err)
	}

	if c.SD {
		// issuer: every credentialSubject leaf becomes a disclosure (structured claims); holder: parse the combined format
		combined, err := vc.MakeSDJWT(verifiable.GetJWTSigner(e.ed, "EdDSA"), e.edVM)
		if err != nil {
			return nil, fmt.Errorf("make sd-jwt: %w", err)
		}

		return []byte(combined), nil
	}

	if c.JWT != 0 {
		claims, err := vc.JWTClaims(false)
		if err != nil {
			return nil, err
		}

		var jws string

		switch c.JWT {
		case 1:
			jws, err = claims.MarshalJWS(verifiable.EdDSA, e.ed, e.edVM)
		default:
			jws, err = claims.MarshalJWS(verifiable.ECDSASecp256r1, e.p256, didOf(c.Issuer)+"#k")
		}

		if err != nil {
			return nil, err
		}

		return []byte(jws), nil
	}

	if len(c.Proofs) == 0 {
		return raw, nil
	}

	for _, p := range c.Proofs {
		created := time.Unix(baseSec, 0).UTC()
		lc := &verifiable.LinkedDataProofContext{
			SignatureType: proofNames[p], SignatureRepresentation: verifiable.SignatureJWS,
			Created: &created, VerificationMethod: e.edVM,
		}

		switch p {
		case 1:
			lc.Suite = ed25519signature2018.New(suite.WithSigner(e.ed))
		case 2:
			lc.Suite = jsonwebsignature2020.New(suite.WithSigner(e.ed))
		case 3:
			lc.Suite = bbsblssignature2020.New(suite.WithSigner(&bbsSigner{priv: e.bbsPriv}))
			lc.SignatureRepresentation = verifiable.SignatureProofValue
			lc.VerificationMethod = "did:ex:" + strconv.Itoa(c.Issuer) + "#bbs"
		default:
			return nil, errors.New("proof type not built by this harness")
		}

		if err := vc.AddLinkedDataProof(lc, processor.WithDocumentLoader(e.loader)); err != nil {
			return nil, fmt.Errorf("sign: %w", err)
		}
	}

	return vc.MarshalJSON()
}

func prefJSON(v int) interface{} {
	switch v {
	case 1:
		return "preferred"
	case 2:
		return "required"
	}

	return nil
}

func formatJSON(f *Format) map[string]interface{} {
	if f == nil {
		return nil
	}

	out := map[string]interface{}{}

	ldp := func(name string, l *[]int) {
		if l != nil {
			s := []string{}
			for _, p := range *l {
				s = append(s, proofNames[p])
			}

			out[name] = map[string]interface{}{"proof_type": s}
		}
	}
	jw := func(name string, l *[]int) {
		if l != nil {
			s := []string{}
			for _, p := range *l {
				s = append(s, algNames[p])
			}

			out[name] = map[string]interface{}{"alg": s}
		}
	}

	ldp("ldp", f.Ldp)
	ldp("ldp_vc", f.LdpVC)
	ldp("ldp_vp", f.LdpVP)
	jw("jwt", f.Jwt)
	jw("jwt_vc", f.JwtVC)
	jw("jwt_vp", f.JwtVP)

	return out
}

func sreqJSON(s SReq) map[string]interface{} {
	m := map[string]interface{}{"rule": "pick"}
	if s.All {
		m["rule"] = "all"
	}

	if s.Count != 0 {
		m["count"] = s.Count
	}

	if s.Min != 0 {
		m["min"] = s.Min
	}

	if s.Max != 0 {
		m["max"] = s.Max
	}

	if s.From != 0 {
		m["from"] = "G" + strconv.Itoa(s.From)
	} else {
		n := []interface{}{}
		for _, c := range s.Nested {
			n = append(n, sreqJSON(c))
		}

		m["from_nested"] = n
	}

	return m
}

// defJSON is the presentation definition as a verifier would send it.
func defJSON(p Defn) map[string]interface{} {
	descs := []interface{}{}

	for _, d := range p.Descs {
		dm := map[string]interface{}{"id": "d" + strconv.Itoa(d.ID)}

		if len(d.Groups) > 0 {
			g := []string{}
			for _, x := range d.Groups {
				g = append(g, "G"+strconv.Itoa(x))
			}

			dm["group"] = g
		}

		if len(d.Schema) > 0 {
			s := []interface{}{}
			for _, x := range d.Schema {
				e := map[string]interface{}{"uri": schemaURI(x.URI)}
				if x.Required {
					e["required"] = true
				}

				s = append(s, e)
			}

			dm["schema"] = s
		}

		if f := formatJSON(d.Format); f != nil {
			dm["format"] = f
		}

		if d.Cons != nil {
			cm := map[string]interface{}{}
			if v := prefJSON(d.Cons.Limit); v != nil {
				cm["limit_disclosure"] = v
			}

			if v := prefJSON(d.Cons.SII); v != nil {
				cm["subject_is_issuer"] = v
			}

			fs := []interface{}{}

			for _, f := range d.Cons.Fields {
				fm := map[string]interface{}{}
				ps := []string{}

				for _, k := range f.Paths {
					ps = append(ps, "$.credentialSubject."+keyPath(k))
				}

				fm["path"] = ps

				if f.Optional {
					fm["optional"] = true
				}

				if f.Pred {
					fm["predicate"] = "required"
				}

				if f.Filter != nil {
					ft := map[string]interface{}{}
					if f.Filter.Type != 0 {
						ft["type"] = map[int]string{1: "number", 2: "string", 3: "boolean"}[f.Filter.Type]
					}

					if f.Filter.Const != nil {
						ft["const"] = valJSON(*f.Filter.Const)
					}

					if f.Filter.Min != nil {
						ft["minimum"] = *f.Filter.Min
					}

					if f.Filter.Max != nil {
						ft["maximum"] = *f.Filter.Max
					}

					if len(f.Filter.Enum) > 0 {
						en := []interface{}{}
						for _, v := range f.Filter.Enum {
							en = append(en, valJSON(v))
						}

						ft["enum"] = en
					}

					fm["filter"] = ft
				}

				fs = append(fs, fm)
			}

			if len(fs) > 0 {
				cm["fields"] = fs
			}

			dm["constraints"] = cm
		}

		descs = append(descs, dm)
	}

	out := map[string]interface{}{"id": "pd-c20", "input_descriptors": descs}

	if f := formatJSON(p.Format); f != nil {
		out["format"] = f
	}

	if len(p.Reqs) > 0 {
		rs := []interface{}{}
		for _, r := range p.Reqs {
			rs = append(rs, sreqJSON(r))
		}

		out["submission_requirements"] = rs
	}

	return out
}

func buildDef(p Defn) (*presexch.PresentationDefinition, error) {
	raw, err := json.Marshal(defJSON(p))
	if err != nil {
		return nil, err
	}

	pd := &presexch.PresentationDefinition{}
	if err := json.Unmarshal(raw, pd); err != nil {
		return nil, err
	}

	return pd, nil
}

// ---------- projection of what the implementation produced ----------

func atoiSuffix(s, prefix string) (int, bool) {
	if !strings.HasPrefix(s, prefix) {
		return 0, false
	}

	n, err := strconv.Atoi(s[len(prefix):])

	return n, err == nil
}

func projVal(v interface{}) Val {
	switch x := v.(type) {
	case float64:
		return Val{T: "n", N: int64(x)}
	case string:
		sn, _ := atoiSuffix(x, "s")
		return Val{T: "s", S: sn}
	case bool:
		return Val{T: "b", B: x}
	case nil:
		return Val{T: "z"}
	case []interface{}:
		out := Val{T: "a", L: []Val{}}
		for _, e := range x {
			out.L = append(out.L, projVal(e))
		}

		return out
	default:
		return Val{T: "s", S: 999}
	}
}

// projected credential + the index of the holder's credential it derives from (issuanceDate)
func (e *env) projectCred(raw interface{}) (Cred, int, error) {
	var m map[string]interface{}

	isJWT, isSD, nDisc := false, false, 0

	switch v := raw.(type) {
	case string:
		isJWT = true

		vc, err := verifiable.ParseCredential([]byte(v), e.credOpt...)
		if err != nil {
			return Cred{}, -1, fmt.Errorf("re-parse jwt vc: %w", err)
		}

		if vc.SDJWTHashAlg != "" {
			// what a verifier can read: the claims the presented disclosures open
			isSD = true
			nDisc = len(vc.SDJWTDisclosures)

			vc, err = vc.CreateDisplayCredential(verifiable.DisplayAllDisclosures())
			if err != nil {
				return Cred{}, -1, fmt.Errorf("display sd-jwt vc: %w", err)
			}
		}

		vc.JWT = ""

		b, err := vc.MarshalJSON()
		if err != nil {
			return Cred{}, -1, err
		}

		if err := json.Unmarshal(b, &m); err != nil {
			return Cred{}, -1, err
		}
	case map[string]interface{}:
		m = v
	default:
		return Cred{}, -1, fmt.Errorf("credential of unexpected JSON kind %T", raw)
	}

	c := Cred{SD: isSD}
	if isJWT {
		c.JWT = 1
	}

	if ctxs, ok := m["@context"].([]interface{}); ok {
		for _, x := range ctxs {
			if x == ctxURL2 {
				c.Ctx = 2
			}
		}
	}

	if id, ok := m["id"].(string); ok {
		c.ID, _ = atoiSuffix(id, "urn:c:")
	}

	switch is := m["issuer"].(type) {
	case string:
		c.Issuer, _ = atoiSuffix(is, "did:ex:")
	case map[string]interface{}:
		s, _ := is["id"].(string)
		c.Issuer, _ = atoiSuffix(s, "did:ex:")
	}

	switch t := m["type"].(type) {
	case string:
		if t == "VerifiableCredential" {
			c.Types = []int{1}
		} else if n, ok := atoiSuffix(t, "T"); ok {
			c.Types = []int{n}
		}
	case []interface{}:
		for _, x := range t {
			s, _ := x.(string)
			if s == "VerifiableCredential" {
				c.Types = append(c.Types, 1)
			} else if n, ok := atoiSuffix(s, "T"); ok {
				c.Types = append(c.Types, n)
			} else {
				c.Types = append(c.Types, 99)
			}
		}
	}

	subj := m["credentialSubject"]
	if l, ok := subj.([]interface{}); ok && len(l) == 1 {
		subj = l[0]
	}

	switch s := subj.(type) {
	case string:
		c.Subject, _ = atoiSuffix(s, "did:ex:")
	case map[string]interface{}:
		for k, v := range s {
			if k == "id" {
				id, _ := v.(string)
				c.Subject, _ = atoiSuffix(id, "did:ex:")

				continue
			}

			if strings.HasPrefix(k, "_sd") {
				continue
			}

			if on, ok := atoiSuffix(k, "o"); ok {
				if obj, isObj := v.(map[string]interface{}); isObj {
					for k2, v2 := range obj {
						if strings.HasPrefix(k2, "_sd") {
							continue
						}

						n2, ok2 := atoiSuffix(k2, "a")
						if !ok2 {
							n2 = 99
						}

						c.Attrs = append(c.Attrs, Attr{K: 100*on + n2, V: projVal(v2)})
					}

					continue
				}
			}

			n, ok := atoiSuffix(k, "a")
			if !ok {
				n = 99
			}

			c.Attrs = append(c.Attrs, Attr{K: n, V: projVal(v)})
		}
	}

	sortAttrs(c.Attrs)
	e.lastDisc = nDisc

	if ps, ok := m["proof"]; ok {
		var list []interface{}
		if l, ok := ps.([]interface{}); ok {
			list = l
		} else {
			list = []interface{}{ps}
		}

		for _, p := range list {
			if pm, ok := p.(map[string]interface{}); ok {
				for code, name := range proofNames {
					if pm["type"] == name {
						c.Proofs = append(c.Proofs, code)
					}
				}
			}
		}
	}

	src := -1

	if d, ok := m["issuanceDate"].(string); ok {
		if t, err := time.Parse(time.RFC3339, d); err == nil {
			src = int(t.Unix() - baseSec)
		}
	}

	return c, src, nil
}

var fmtCodes = map[string]int{"": 0, "ldp": 1, "ldp_vc": 2, "ldp_vp": 3, "jwt": 4, "jwt_vc": 5, "jwt_vp": 6}

// Obs is what the implementation did on one case.
type Obs struct {
	Create   string    `json:"create"` // vp | nofrom | nocreds | other
	Err      string    `json:"err,omitempty"`
	Fmt      int       `json:"fmt,omitempty"`
	Creds    []Cred    `json:"creds,omitempty"`
	Src      []int     `json:"src,omitempty"`
	Disc     []int     `json:"disclosures,omitempty"`
	MDisc    []int     `json:"matched_disclosures,omitempty"`
	Maps     []Mapping `json:"maps,omitempty"`
	Disable  bool      `json:"disable_schema"`
	Match    string    `json:"match,omitempty"` // ok | err
	MatchErr string    `json:"match_err,omitempty"`
	MatchC   int       `json:"match_code,omitempty"`
	Matched  []Matched `json:"matched,omitempty"`
	MSrc     []int     `json:"matched_src,omitempty"`
}

func (e *env) runCase(c Case, array bool) (*Obs, error) {
	pd, err := buildDef(c.Def)
	if err != nil {
		return nil, err
	}

	creds := make([]*verifiable.Credential, len(c.Creds))
	for i, cr := range c.Creds {
		creds[i], err = e.buildCred(cr, i)
		if err != nil {
			return nil, fmt.Errorf("credential %d: %w", i, err)
		}
	}

	o := &Obs{Disable: true}

	for _, d := range c.Def.Descs {
		if len(d.Schema) > 0 {
			o.Disable = false
		}
	}

	createErr := func(err error) {
		switch {
		case errors.Is(err, presexch.ErrNoCredentials):
			o.Create = "nocreds"
		case strings.Contains(err.Error(), "no descriptors for from"):
			o.Create = "nofrom"
		default:
			o.Create = "other"
		}

		o.Err = err.Error()
	}

	// descriptor map entries: single presentation "$" / "$.verifiableCredential[i]"; presentation array "$[i]" /
	// "$.verifiableCredential[0]"
	readMap := func(dm []interface{}) error {
		for _, x := range dm {
			mm, _ := x.(map[string]interface{})
			id, _ := mm["id"].(string)
			n, _ := atoiSuffix(id, "d")
			f, _ := mm["format"].(string)
			o.Fmt = fmtCodes[f]
			nested, _ := mm["path_nested"].(map[string]interface{})
			np, _ := nested["path"].(string)
			nf, _ := nested["format"].(string)
			top, _ := mm["path"].(string)
			idx := -1

			switch {
			case !array && top == "$" && strings.HasPrefix(np, "$.verifiableCredential[") && strings.HasSuffix(np, "]"):
				idx, _ = strconv.Atoi(np[len("$.verifiableCredential[") : len(np)-1])
			case array && np == "$.verifiableCredential[0]" && strings.HasPrefix(top, "$[") && strings.HasSuffix(top, "]"):
				idx, _ = strconv.Atoi(top[2 : len(top)-1])
			}

			if idx < 0 {
				return fmt.Errorf("descriptor map entry with unexpected paths: %v", mm)
			}

			o.Maps = append(o.Maps, Mapping{ID: n, Idx: idx, VCFmt: fmtCodes[nf]})
		}

		return nil
	}

	var (
		parsedVPs []*verifiable.Presentation
		mergedSub map[string]interface{}
	)

	// one presentation travels as JSON to the verifier
	ship := func(vp *verifiable.Presentation) (map[string]interface{}, error) {
		vpBytes, err := vp.MarshalJSON()
		if err != nil {
			return nil, fmt.Errorf("marshal vp: %w", err)
		}

		if os.Getenv("C20_DEBUG") != "" {
			fmt.Fprintln(os.Stderr, string(vpBytes))
		}

		var vpMap map[string]interface{}
		if err := json.Unmarshal(vpBytes, &vpMap); err != nil {
			return nil, err
		}

		rawCreds, _ := vpMap["verifiableCredential"].([]interface{})
		for _, rc := range rawCreds {
			pc, src, err := e.projectCred(rc)
			if err != nil {
				return nil, err
			}

			o.Creds = append(o.Creds, pc)
			o.Src = append(o.Src, src)
			o.Disc = append(o.Disc, e.lastDisc)
		}

		parsed, err := verifiable.ParsePresentation(vpBytes, verifiable.WithPresJSONLDDocumentLoader(e.loader),
			verifiable.WithPresDisabledProofCheck())
		if err != nil {
			return nil, fmt.Errorf("verifier cannot parse the presentation: %w", err)
		}

		parsedVPs = append(parsedVPs, parsed)

		return vpMap, nil
	}

	if array {
		vps, sub, err := pd.CreateVPArray(creds, e.loader, e.credOpt...)
		if err != nil {
			createErr(err)

			return o, nil
		}

		o.Create = "vp"

		for i, vp := range vps {
			before := len(o.Creds)

			if _, err := ship(vp); err != nil {
				return nil, err
			}

			if len(o.Creds) != before+1 {
				return nil, fmt.Errorf("presentation %d of the array carries %d credentials", i, len(o.Creds)-before)
			}
		}

		subBytes, err := json.Marshal(sub)
		if err != nil {
			return nil, err
		}

		if err := json.Unmarshal(subBytes, &mergedSub); err != nil {
			return nil, err
		}

		dm, _ := mergedSub["descriptor_map"].([]interface{})
		if err := readMap(dm); err != nil {
			return nil, err
		}
	} else {
		vp, err := pd.CreateVP(creds, e.loader, e.credOpt...)
		if err != nil {
			createErr(err)

			return o, nil
		}

		o.Create = "vp"

		vpMap, err := ship(vp)
		if err != nil {
			return nil, err
		}

		sub, _ := vpMap["presentation_submission"].(map[string]interface{})
		dm, _ := sub["descriptor_map"].([]interface{})

		if err := readMap(dm); err != nil {
			return nil, err
		}
	}

	mopts := []presexch.MatchOption{presexch.WithCredentialOptions(e.credOpt...)}
	if o.Disable {
		mopts = append(mopts, presexch.WithDisableSchemaValidation())
	}

	if array {
		mopts = append(mopts, presexch.WithMergedSubmissionMap(mergedSub))
	}

	res, err := pd.Match(parsedVPs, e.loader, mopts...)
	if err != nil {
		o.Match = "err"
		o.MatchErr = err.Error()

		switch {
		case strings.Contains(o.MatchErr, "did not match the `id` property"):
			o.MatchC = 1
		case strings.Contains(o.MatchErr, "failed to select vc"):
			o.MatchC = 2
		case strings.Contains(o.MatchErr, "requires schemas"):
			o.MatchC = 3
		case strings.Contains(o.MatchErr, "no descriptors for from"):
			o.MatchC = 5
		case strings.Contains(o.MatchErr, "failed submission requirements"):
			o.MatchC = 4
		default:
			o.MatchC = 9
		}

		return o, nil
	}

	o.Match = "ok"

	ids := []string{}
	for k := range res {
		ids = append(ids, k)
	}

	sort.Strings(ids)

	for _, k := range ids {
		mv := res[k]
		got := mv.Credential
		nd := 0
		sd := got.SDJWTHashAlg != ""

		if sd {
			nd = len(got.SDJWTDisclosures)

			got, err = got.CreateDisplayCredential(verifiable.DisplayAllDisclosures())
			if err != nil {
				return nil, fmt.Errorf("display matched sd-jwt vc: %w", err)
			}
		}

		jwt := got.JWT
		got.JWT = ""

		b, err := got.MarshalJSON()
		if err != nil {
			return nil, err
		}

		got.JWT = jwt

		var m map[string]interface{}
		if err := json.Unmarshal(b, &m); err != nil {
			return nil, err
		}

		pc, src, err := e.projectCred(m)
		if err != nil {
			return nil, err
		}

		if jwt != "" || sd {
			pc.JWT = 1
		}

		pc.SD = sd
		o.MDisc = append(o.MDisc, nd)

		n, _ := atoiSuffix(k, "d")
		o.Matched = append(o.Matched, Matched{ID: n, Cred: pc})
		o.MSrc = append(o.MSrc, src)
	}

	return o, nil
}

// MSRObs is what MatchSubmissionRequirement reported: per visited descriptor (requirement tree order) the credentials.
type MSRObs struct {
	Err   string    `json:"err,omitempty"`
	Descs []MSRDesc `json:"descs,omitempty"`
}

// MSRDesc is one MatchedInputDescriptor.
type MSRDesc struct {
	ID    int    `json:"id"`
	Creds []Cred `json:"creds"`
	Src   []int  `json:"src"`
	Disc  []int  `json:"disclosures"`
}

func (e *env) runMSR(c Case, apply bool) (*MSRObs, error) {
	pd, err := buildDef(c.Def)
	if err != nil {
		return nil, err
	}

	creds := make([]*verifiable.Credential, len(c.Creds))
	for i, cr := range c.Creds {
		creds[i], err = e.buildCred(cr, i)
		if err != nil {
			return nil, fmt.Errorf("credential %d: %w", i, err)
		}
	}

	var opts []presexch.MatchRequirementsOpt
	if apply {
		opts = append(opts, presexch.WithSelectiveDisclosureApply(), presexch.WithSDCredentialOptions(e.credOpt...))
	}

	res, err := pd.MatchSubmissionRequirement(creds, e.loader, opts...)
	if err != nil {
		return &MSRObs{Err: err.Error()}, nil
	}

	o := &MSRObs{}

	var walk func(m *presexch.MatchedSubmissionRequirement) error
	walk = func(m *presexch.MatchedSubmissionRequirement) error {
		for _, d := range m.Descriptors {
			id, _ := atoiSuffix(d.ID, "d")
			md := MSRDesc{ID: id, Creds: []Cred{}, Src: []int{}, Disc: []int{}}

			for _, vc := range d.MatchedVCs {
				// what the holder application would show / hand on: the credential as it serialises
				b, err := vc.MarshalJSON()
				if err != nil {
					return err
				}

				var raw interface{}
				if err := json.Unmarshal(b, &raw); err != nil {
					return err
				}

				pc, src, err := e.projectCred(raw)
				if err != nil {
					return err
				}

				md.Creds = append(md.Creds, pc)
				md.Src = append(md.Src, src)
				md.Disc = append(md.Disc, e.lastDisc)
			}

			o.Descs = append(o.Descs, md)
		}

		for _, n := range m.Nested {
			if err := walk(n); err != nil {
				return err
			}
		}

		return nil
	}

	for _, m := range res {
		if err := walk(m); err != nil {
			return nil, err
		}
	}

	return o, nil
}
