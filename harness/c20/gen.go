package main

import (
	"fmt"
	"sort"

	"github.com/hyperledger/aries-framework-go/component/models/presexch"

	"verifharness/hx"
)

func num(n int64) Val { return Val{T: "n", N: n} }
func str(s int) Val   { return Val{T: "s", S: s} }
func i64(n int64) *int64 { return &n }

func constField(k int, v Val) Field {
	t := 1
	if v.T == "s" {
		t = 2
	}

	return Field{Paths: []int{k}, Filter: &Filter{Type: t, Const: &v}}
}

// descriptor i asks for credentialSubject.a_i == i
func simpleDesc(i int, groups []int) Desc {
	return Desc{ID: i, Groups: groups, Schema: []Sch{{URI: 1}}, Cons: &Cons{Fields: []Field{constField(i, num(int64(i)))}}}
}

// a credential satisfying exactly the descriptors in `sat` (simpleDesc), id as given
func credFor(id int, sat []int, miss []int) Cred {
	c := Cred{ID: id, Issuer: 50, Subject: 60, Types: []int{1}}

	for _, i := range sat {
		c.Attrs = append(c.Attrs, Attr{K: i, V: num(int64(i))})
	}

	for _, i := range miss {
		c.Attrs = append(c.Attrs, Attr{K: i, V: num(int64(i + 1))}) // near miss: off by one
	}

	sortAttrs(c.Attrs)

	return c
}

// submission requirement shapes over groups 1 (A) and 2 (B); ka, kb = group sizes
func reqShapes(ka, kb int) [][]SReq {
	var out [][]SReq

	out = append(out, nil)
	out = append(out, []SReq{{All: true, From: 1}})

	bounds := func(k int) []int {
		m := map[int]bool{}
		for _, b := range []int{1, k - 1, k, k + 1} {
			if b >= 1 {
				m[b] = true
			}
		}

		var l []int
		for b := 1; b <= k+1; b++ {
			if m[b] {
				l = append(l, b)
			}
		}

		return l
	}

	for _, c := range bounds(ka) {
		out = append(out, []SReq{{Count: c, From: 1}})
		out = append(out, []SReq{{Min: c, From: 1}})
		out = append(out, []SReq{{Max: c, From: 1}})
	}

	out = append(out, []SReq{{Min: 1, Max: ka, From: 1}})
	out = append(out, []SReq{{From: 1}}) // pick without bounds

	if ka >= 2 {
		out = append(out, []SReq{{Min: 1, Max: ka - 1, From: 1}})
	}

	if kb > 0 {
		out = append(out, []SReq{{All: true, From: 1}, {All: true, From: 2}})
		out = append(out, []SReq{{Count: 1, From: 1}, {All: true, From: 2}})
		out = append(out, []SReq{{Count: 1, From: 1}, {Count: 1, From: 2}})
		out = append(out, []SReq{{All: true, Nested: []SReq{{All: true, From: 1}, {Count: 1, From: 2}}}})
		out = append(out, []SReq{{Count: 1, Nested: []SReq{{All: true, From: 1}, {All: true, From: 2}}}})
		out = append(out, []SReq{{Min: 1, Nested: []SReq{{Count: 1, From: 1}, {Count: kb, From: 2}}}})
		out = append(out, []SReq{{Max: 1, Nested: []SReq{{Min: 1, From: 1}, {Max: 1, From: 2}}}})
		out = append(out, []SReq{{Count: 2, Nested: []SReq{{Count: 1, From: 1}, {Count: 1, From: 2}, {All: true, From: 2}}}})
		out = append(out, []SReq{{Count: 1, Nested: []SReq{{Count: 1, Nested: []SReq{{All: true, From: 1}, {All: true, From: 2}}}, {All: true, From: 2}}}})
	}

	out = append(out, []SReq{{All: true, From: 3}}) // a group no descriptor belongs to

	return out
}

// genRequirements: every rule shape x every satisfiable-descriptor pattern for n <= 3 (4 sampled), with one
// credential per satisfiable descriptor, near-miss credentials for the others, and shared credentials.
func genRequirements(r *runner, rng *hx.Rng, thorough bool) {
	maxN := 4

	for n := 1; n <= maxN; n++ {
		ka := (n + 1) / 2
		kb := n - ka

		var descs []Desc

		for i := 1; i <= n; i++ {
			g := []int{1}
			if i > ka {
				g = []int{2}
			}

			descs = append(descs, simpleDesc(i, g))
		}

		variants := [][]Desc{descs}

		if n >= 2 {
			// last descriptor of A also belongs to B; definition order reversed
			d2 := append([]Desc{}, descs...)
			d2[ka-1] = simpleDesc(ka, []int{1, 2})
			variants = append(variants, d2)

			d3 := []Desc{}
			for i := n - 1; i >= 0; i-- {
				d3 = append(d3, descs[i])
			}

			variants = append(variants, d3)
		}

		for vi, ds := range variants {
			for si, shape := range reqShapes(ka, kb) {
				for pat := 0; pat < 1<<n; pat++ {
					if n == 4 && !thorough && rng.Intn(3) != 0 {
						continue
					}

					if pat == 0 && rng.Intn(4) != 0 {
						continue // nothing satisfiable: CreateVP fails, the property says nothing
					}

					if vi > 0 && !thorough && rng.Intn(2) != 0 {
						continue
					}

					var creds []Cred

					mode := rng.Intn(4)

					var satAll, missAll []int

					for i := 1; i <= n; i++ {
						if pat&(1<<(i-1)) != 0 {
							satAll = append(satAll, i)
						} else {
							missAll = append(missAll, i)
						}
					}

					switch mode {
					case 0: // one credential per satisfiable descriptor + one near miss credential per other descriptor
						for _, i := range satAll {
							creds = append(creds, credFor(100+i, []int{i}, nil))
						}

						for _, i := range missAll {
							creds = append(creds, credFor(200+i, nil, []int{i}))
						}
					case 1: // one credential satisfying all satisfiable descriptors
						creds = append(creds, credFor(100, satAll, missAll))
					case 2: // credentials without id
						for _, i := range satAll {
							creds = append(creds, credFor(0, []int{i}, nil))
						}
					default: // two credentials per satisfiable descriptor, in reverse order
						for j := len(satAll) - 1; j >= 0; j-- {
							creds = append(creds, credFor(100+satAll[j], []int{satAll[j]}, nil))
							creds = append(creds, credFor(300+satAll[j], []int{satAll[j]}, missAll))
						}
					}

					r.do(fmt.Sprintf("requirements:n%d.v%d.s%d", n, vi, si), Case{Def: Defn{Reqs: shape, Descs: ds}, Creds: creds}, true)
				}
			}
		}
	}
}

// genConstraints: one or two descriptors with every kind of field/filter and near-miss credentials.
func genConstraints(r *runner, rng *hx.Rng, thorough bool) {
	type fcase struct {
		f    Field
		hit  []Val // values that satisfy
		miss []Val // near misses
	}

	fcs := []fcase{
		{constField(1, num(5)), []Val{num(5)}, []Val{num(4), num(6), str(5), {T: "b", B: true}}},
		{constField(1, str(3)), []Val{str(3)}, []Val{str(4), num(3)}},
		{Field{Paths: []int{1}, Filter: &Filter{Type: 1, Min: i64(10)}}, []Val{num(10), num(11)}, []Val{num(9), str(10)}},
		{Field{Paths: []int{1}, Filter: &Filter{Type: 1, Max: i64(10)}}, []Val{num(10), num(-3)}, []Val{num(11), str(1)}},
		{Field{Paths: []int{1}, Filter: &Filter{Type: 1, Min: i64(3), Max: i64(4)}}, []Val{num(3), num(4)}, []Val{num(2), num(5)}},
		{Field{Paths: []int{1}, Filter: &Filter{Enum: []Val{num(1), str(2)}}}, []Val{num(1), str(2)}, []Val{num(2), str(1)}},
		{Field{Paths: []int{1}, Filter: &Filter{Type: 2}}, []Val{str(1)}, []Val{num(1), {T: "b", B: false}}},
		{Field{Paths: []int{1}, Filter: &Filter{Type: 3}}, []Val{{T: "b", B: false}}, []Val{num(0)}},
		{Field{Paths: []int{1}}, []Val{num(1), str(1)}, nil},
		{Field{Paths: []int{1, 2}, Filter: &Filter{Type: 1, Const: &Val{T: "n", N: 7}}}, []Val{num(7)}, []Val{num(8)}},
	}

	for fi, fc := range fcs {
		for _, optional := range []bool{false, true} {
			for _, pred := range []bool{false, true} {
				for _, limit := range []int{0, 1, 2} {
					for _, sii := range []int{0, 2} {
						if !thorough && rng.Intn(3) == 0 {
							continue
						}

						f := fc.f
						f.Optional = optional
						f.Pred = pred
						d1 := Desc{ID: 1, Schema: []Sch{{URI: 1}}, Cons: &Cons{Limit: limit, SII: sii, Fields: []Field{f}}}

						// a second field on another member in half of the cases
						if rng.Bool() {
							d1.Cons.Fields = append(d1.Cons.Fields, Field{Paths: []int{3}, Filter: &Filter{Type: 1, Min: i64(0)}, Optional: rng.Bool()})
						}

						var creds []Cred

						id := 1

						add := func(v *Val, second *Val, extra bool, selfIssued bool) {
							c := Cred{ID: id, Issuer: 50, Subject: 60, Types: []int{1}}
							if selfIssued {
								c.Subject = 50
							}

							id++

							if v != nil {
								c.Attrs = append(c.Attrs, Attr{K: 1, V: *v})
							}

							if second != nil {
								c.Attrs = append(c.Attrs, Attr{K: 2, V: *second})
							}

							if extra {
								c.Attrs = append(c.Attrs, Attr{K: 3, V: num(int64(rng.Intn(3) - 1))}, Attr{K: 4, V: str(9)})
							}

							sortAttrs(c.Attrs)
							creds = append(creds, c)
						}

						for _, v := range fc.hit {
							v := v
							add(&v, nil, rng.Bool(), rng.Bool())
						}

						for _, v := range fc.miss {
							v := v
							add(&v, nil, rng.Bool(), rng.Bool())
						}

						add(nil, nil, true, rng.Bool()) // member absent

						if len(fc.f.Paths) > 1 && len(fc.hit) > 0 && len(fc.miss) > 0 {
							add(&fc.miss[0], &fc.hit[0], false, true) // first path misses, second hits
							add(nil, &fc.hit[0], true, false)
							add(&fc.hit[0], &fc.miss[0], true, true)
						}

						// shuffle
						for i := len(creds) - 1; i > 0; i-- {
							j := rng.Intn(i + 1)
							creds[i], creds[j] = creds[j], creds[i]
						}

						if rng.Intn(3) == 0 && len(creds) > 3 {
							creds = creds[:3]
						}

						switch rng.Intn(5) {
						case 0: // every credential as SD-JWT
							for i := range creds {
								creds[i].SD = true
							}
						case 1:
							for i := range creds {
								creds[i].JWT = 1
							}
						case 2:
							for i := range creds {
								creds[i].MapSubject = rng.Intn(3) == 0
							}
						}

						r.do(fmt.Sprintf("constraints:f%d", fi), Case{Def: Defn{Descs: []Desc{d1}}, Creds: creds}, true)
					}
				}
			}
		}
	}

	// constraints without fields, descriptors without constraints, schema lists
	schemas := [][]Sch{{{URI: 1}}, {{URI: 2}}, {{URI: 2, Required: true}, {URI: 1}}, {{URI: 1}, {URI: 2, Required: true}}, {{URI: 9}, {URI: 1}},
		{{URI: 9, Required: true}, {URI: 1}}, {{URI: 9}}, {{URI: 2}, {URI: 3}}, {{URI: 1, Required: true}, {URI: 3, Required: true}}}
	typesets := [][]int{{1}, {1, 2}, {1, 3}, {1, 2, 3}}

	for si, sc := range schemas {
		for k := 0; k < 6; k++ {
			var creds []Cred

			nc := 1 + rng.Intn(3)
			for i := 0; i < nc; i++ {
				creds = append(creds, Cred{ID: i + 1, Issuer: 50, Subject: 60, Types: typesets[rng.Intn(len(typesets))],
					Attrs: []Attr{{K: 1, V: num(int64(rng.Intn(2)))}}})
			}

			d := Desc{ID: 1, Schema: sc}

			switch k % 3 {
			case 1:
				d.Cons = &Cons{Fields: []Field{constField(1, num(1))}}
			case 2:
				d.Cons = &Cons{SII: 2 * rng.Intn(2), Limit: rng.Intn(3)} // constraints without fields
			}

			ds := []Desc{d}
			if rng.Bool() {
				ds = append(ds, Desc{ID: 2, Schema: schemas[rng.Intn(len(schemas))]})
			}

			r.do(fmt.Sprintf("schema:s%d", si), Case{Def: Defn{Descs: ds}, Creds: creds}, true)
		}
	}
}

func il(xs ...int) *[]int { return &xs }

// genFormats: format designations on the definition and on descriptors, signed LDP and JWT credentials,
// definitions of the v2 flavour (no schema member).
func genFormats(r *runner, rng *hx.Rng, thorough bool) {
	formats := []*Format{
		nil,
		{LdpVC: il(1)}, {LdpVP: il(1)}, {Ldp: il(2)}, {LdpVC: il(1, 2)}, {JwtVC: il(1)}, {Jwt: il(2)}, {JwtVP: il(1, 2)},
		{LdpVC: il(2), JwtVC: il(1)}, {JwtVC: il(3)}, {LdpVC: il(3)}, {Ldp: il(2), LdpVC: il(1), Jwt: il(1), JwtVC: il(2)},
		{},
	}

	credKinds := []func(id int) Cred{
		func(id int) Cred { return Cred{ID: id, Issuer: 50, Subject: 60, Types: []int{1}} },
		func(id int) Cred { return Cred{ID: id, Issuer: 50, Subject: 60, Types: []int{1}, Proofs: []int{1}} },
		func(id int) Cred { return Cred{ID: id, Issuer: 50, Subject: 60, Types: []int{1}, Proofs: []int{2}} },
		func(id int) Cred { return Cred{ID: id, Issuer: 50, Subject: 60, Types: []int{1}, Proofs: []int{1, 2}} },
		func(id int) Cred { return Cred{ID: id, Issuer: 50, Subject: 60, Types: []int{1}, JWT: 1} },
		func(id int) Cred { return Cred{ID: id, Issuer: 50, Subject: 60, Types: []int{1}, JWT: 2} },
		func(id int) Cred { return Cred{ID: id, Issuer: 50, Subject: 60, Types: []int{1}, JWT: 1, SD: true} },
		func(id int) Cred { return Cred{ID: id, Issuer: 50, Subject: 60, Types: []int{1}, Proofs: []int{3}} },
	}

	rounds := 5
	if thorough {
		rounds = 8
	}

	for round := 0; round < rounds; round++ {
		for fi, pf := range formats {
			for _, v2 := range []bool{false, true} {
				nd := 1 + rng.Intn(2)

				var descs []Desc

				for i := 1; i <= nd; i++ {
					d := Desc{ID: i}
					if !v2 {
						d.Schema = []Sch{{URI: 1}}
					}

					if rng.Intn(3) == 0 {
						d.Format = formats[rng.Intn(len(formats))]
					}

					switch rng.Intn(4) {
					case 0:
						d.Cons = &Cons{Fields: []Field{{Paths: []int{1}, Filter: &Filter{Type: 1, Min: i64(1)}}}}
					case 1:
						d.Cons = &Cons{Limit: 2, Fields: []Field{{Paths: []int{1}, Filter: &Filter{Type: 1, Min: i64(1)}, Pred: rng.Bool()}}}
					case 2:
						d.Cons = &Cons{Fields: []Field{{Paths: []int{1}, Filter: &Filter{Type: 1, Min: i64(1)}, Pred: true}}}
					}

					descs = append(descs, d)
				}

				var creds []Cred

				nc := 1 + rng.Intn(4)
				for i := 0; i < nc; i++ {
					c := credKinds[rng.Intn(len(credKinds))](i + 1)
					c.Attrs = []Attr{{K: 1, V: num(int64(rng.Intn(3)))}, {K: 2, V: str(4)}}

					if rng.Intn(3) == 0 {
						c.Subject = c.Issuer
					}

					creds = append(creds, c)
				}

				var reqs []SReq
				if nd == 2 && rng.Bool() {
					descs[0].Groups = []int{1}
					descs[1].Groups = []int{1}
					reqs = []SReq{{Min: 1, From: 1}}
				}

				r.do(fmt.Sprintf("formats:f%d", fi), Case{Def: Defn{Format: pf, Reqs: reqs, Descs: descs}, Creds: creds}, true)
			}
		}
	}
}

func randFilter(rng *hx.Rng) *Filter {
	switch rng.Intn(7) {
	case 0:
		return nil
	case 1:
		v := num(int64(rng.Intn(3)))
		return &Filter{Type: 1, Const: &v}
	case 2:
		return &Filter{Type: 1, Min: i64(int64(rng.Intn(3)))}
	case 3:
		return &Filter{Type: 1, Max: i64(int64(rng.Intn(3)))}
	case 4:
		return &Filter{Enum: []Val{num(int64(rng.Intn(3))), str(rng.Intn(3))}}
	case 5:
		return &Filter{Type: 2}
	default:
		v := str(rng.Intn(3))
		return &Filter{Const: &v}
	}
}

func randSReq(rng *hx.Rng, depth int, ngroups int) SReq {
	s := SReq{}

	switch rng.Intn(5) {
	case 0:
		s.All = true
	case 1:
		s.Count = 1 + rng.Intn(3)
	case 2:
		s.Min = rng.Intn(3)
	case 3:
		s.Max = 1 + rng.Intn(3)
	default:
		s.Min = rng.Intn(2)
		s.Max = s.Min + rng.Intn(3)
	}

	if depth < 2 && rng.Intn(3) == 0 {
		n := 1 + rng.Intn(3)
		for i := 0; i < n; i++ {
			s.Nested = append(s.Nested, randSReq(rng, depth+1, ngroups))
		}
	} else {
		s.From = 1 + rng.Intn(ngroups)
	}

	return s
}

// genRandom: everything mixed.
func genRandom(r *runner, rng *hx.Rng, thorough bool) {
	n := 1300
	if thorough {
		n = 6000
	}

	for k := 0; k < n; k++ {
		g := rng.Fork(uint64(k))
		nd := 1 + g.Intn(5)
		ngroups := 1 + g.Intn(3)

		var descs []Desc

		for i := 1; i <= nd; i++ {
			d := Desc{ID: i, Schema: []Sch{{URI: 1 + g.Intn(2)*g.Intn(2)}}}
			if g.Intn(5) == 0 {
				d.Schema = []Sch{{URI: []int{2, 12, 3, 14, 4, 9}[g.Intn(6)], Required: g.Intn(3) == 0}}
				if g.Bool() {
					d.Schema = append(d.Schema, Sch{URI: []int{1, 2, 12, 3}[g.Intn(4)]})
				}
			}

			for gi := 1; gi <= ngroups; gi++ {
				if g.Intn(2) == 0 {
					d.Groups = append(d.Groups, gi)
				}
			}

			if len(d.Groups) == 0 && g.Intn(4) != 0 {
				d.Groups = []int{1 + g.Intn(ngroups)}
			}

			if g.Intn(6) != 0 {
				c := &Cons{}
				if g.Intn(4) == 0 {
					c.Limit = 1 + g.Intn(2)
				}

				if g.Intn(6) == 0 {
					c.SII = 1 + g.Intn(2)
				}

				nf := 1 + g.Intn(2)
				if g.Intn(12) == 0 {
					nf = 0
				}

				for j := 0; j < nf; j++ {
					f := Field{Paths: []int{1 + g.Intn(4)}, Filter: randFilter(g), Optional: g.Intn(5) == 0, Pred: g.Intn(6) == 0}
					if g.Intn(4) == 0 {
						f.Paths = append(f.Paths, 1+g.Intn(4))
					}

					c.Fields = append(c.Fields, f)
				}

				d.Cons = c
			}

			descs = append(descs, d)
		}

		var reqs []SReq

		if g.Intn(4) != 0 {
			nr := 1 + g.Intn(2)
			for i := 0; i < nr; i++ {
				reqs = append(reqs, randSReq(g, 0, ngroups))
			}
		}

		var creds []Cred

		nc := 1 + g.Intn(6)
		for i := 0; i < nc; i++ {
			c := Cred{ID: i + 1, Issuer: 50 + g.Intn(2), Subject: 50 + g.Intn(3), Types: []int{1}}
			if g.Intn(3) == 0 {
				c.Types = append(c.Types, 2+g.Intn(3))
			}

			if g.Intn(3) == 0 {
				c.Ctx = 2
			}

			if g.Intn(6) == 0 {
				c.ID = 0
			}

			if g.Intn(8) == 0 {
				c.Subject = 0
			}

			switch g.Intn(8) {
			case 0:
				c.JWT = 1
			case 1:
				c.Proofs = []int{1}
			case 2, 3:
				c.SD = true
			}

			for a := 1; a <= 4; a++ {
				switch g.Intn(4) {
				case 0:
				case 1:
					c.Attrs = append(c.Attrs, Attr{K: a, V: str(g.Intn(3))})
				default:
					c.Attrs = append(c.Attrs, Attr{K: a, V: num(int64(g.Intn(3)))})
				}
			}

			creds = append(creds, c)
		}

		r.do("random", Case{Def: Defn{Reqs: reqs, Descs: descs}, Creds: creds}, true)
	}
}

// ---------- iterator / IsSatisfiedBy / makeRequirement driven directly ----------

func leafReqs(ids []int) []Req {
	k := len(ids)
	out := []Req{{IDs: ids, Count: k}, {IDs: ids, Max: k}, {IDs: ids, Count: 1}, {IDs: ids, Min: 1, Max: k}}

	if k >= 2 {
		out = append(out, Req{IDs: ids, Count: k - 1}, Req{IDs: ids, Min: k - 1}, Req{IDs: ids, Max: k - 1}, Req{IDs: ids, Min: 2, Max: 2})
	}

	out = append(out, Req{IDs: ids, Count: k + 1}, Req{IDs: ids, Min: k + 1})

	return out
}

func genIterator(r *runner, rng *hx.Rng, thorough bool) {
	emit := func(kind string, ic iterCase, sig, detail string, coq bool) {
		rec := &hx.Record{Kind: kind, Case: ic, Class: fmt.Sprintf("iter/%d/%d/%d", len(ic.Descs), len(ic.Steps), len(ic.Sat)),
			Trivial: len(ic.Steps) <= 1, Dist: []string{"iterator", fmt.Sprintf("iterator-steps:%d", min(len(ic.Steps), 8))}}
		if sig != "" {
			rec.Oracle, rec.Sig, rec.Detail = "fail", sig, detail
		}

		if coq {
			rec.Coq = coqIter(ic)
		}

		r.tr.Put(rec)
	}

	var reqs []struct {
		q     Req
		descs []int
	}

	for n := 1; n <= 5; n++ {
		var all []int
		for i := 1; i <= n; i++ {
			all = append(all, i)
		}

		for _, q := range leafReqs(all) {
			reqs = append(reqs, struct {
				q     Req
				descs []int
			}{q, all})
		}

		if n >= 2 {
			for split := 1; split < n; split++ {
				a, b := all[:split], all[split:]
				for _, qa := range leafReqs(a) {
					for _, qb := range leafReqs(b) {
						if !thorough && rng.Intn(4) != 0 {
							continue
						}

						for _, top := range []Req{{Count: 2}, {Count: 1}, {Min: 1, Max: 2}, {Max: 1}} {
							t := top
							t.Nested = []Req{qa, qb}
							reqs = append(reqs, struct {
								q     Req
								descs []int
							}{t, all})
						}
					}
				}
			}
		}
	}

	budget := 1500
	if thorough {
		budget = 9000
	}

	type pending struct {
		ic          iterCase
		sig, detail string
		weight      int
	}

	var all []pending

	for _, rq := range reqs {
		n := len(rq.descs)

		for pat := 0; pat < 1<<n; pat++ {
			if n >= 4 && !thorough && rng.Intn(1<<(n-3)) != 0 {
				continue
			}

			sat := map[int]bool{}
			for i, d := range rq.descs {
				if pat&(1<<i) != 0 {
					sat[d] = true
				}
			}

			multi := rng.Intn(4) == 0
			ic, sig, detail := runIter(rq.q, rq.descs, sat, multi)

			// the exclusion arithmetic shows when a descriptor that is not the first of a solution is excluded and
			// the iteration goes on: those cases go through Coq first
			w := 0

			for i, st := range ic.Steps {
				if len(st.Ex) > 0 && i > 0 && len(ic.Steps[i-1].Out) > 1 && len(st.Out) > 0 {
					w += 2
				}

				if len(st.Ex) > 1 {
					w++
				}
			}

			all = append(all, pending{ic, sig, detail, w})
		}
	}

	// shuffle, then stable order by weight
	for i := len(all) - 1; i > 0; i-- {
		j := rng.Intn(i + 1)
		all[i], all[j] = all[j], all[i]
	}

	sort.SliceStable(all, func(i, j int) bool { return all[i].weight > all[j].weight })

	for i, pc := range all {
		emit("iterator", pc.ic, pc.sig, pc.detail, i < budget || pc.sig != "")
	}

	// IsSatisfiedBy + makeRequirement on random definitions
	ns := 600
	if thorough {
		ns = 4000
	}

	for k := 0; k < ns; k++ {
		g := rng.Fork(uint64(1000 + k))
		nd := 1 + g.Intn(5)
		ngroups := 1 + g.Intn(3)

		var descs []Desc

		for i := 1; i <= nd; i++ {
			d := Desc{ID: i, Schema: []Sch{{URI: 1}}}
			for gi := 1; gi <= ngroups; gi++ {
				if g.Intn(2) == 0 {
					d.Groups = append(d.Groups, gi)
				}
			}

			descs = append(descs, d)
		}

		var srs []SReq

		nr := g.Intn(3)
		for i := 0; i < nr; i++ {
			srs = append(srs, randSReq(g, 0, ngroups))
		}

		def := Defn{Reqs: srs, Descs: descs}

		pd, err := buildDef(def)
		must(err)

		vr, err := presexch.VerifRequirementOf(pd)

		var set []int

		for i := 1; i <= nd; i++ {
			if g.Bool() {
				set = append(set, i)
			}
		}

		rec := &hx.Record{Kind: "requirement-of", Case: map[string]interface{}{"def": def, "set": set},
			Class: fmt.Sprintf("reqof/%d/%d", nd, nr), Dist: []string{"requirement-of-definition"}}

		if err != nil {
			rec.Coq = fmt.Sprintf("Rx {| r_def := %s; r_out := None; r_set := %s; r_sat := false |}", coqDefn(def), hx.CoqNList(set))
		} else {
			q := fromVerifReq(vr)
			got := presexch.VerifIsSatisfiedBy(vr, dnames(set))
			m := map[int]bool{}

			for _, s := range set {
				m[s] = true
			}

			if got != isSat(q, m) {
				rec.Oracle, rec.Sig = "fail", "is-satisfied-by-differs-from-rule-semantics"
				rec.Detail = fmt.Sprintf("IsSatisfiedBy=%v for %v", got, set)
			}

			rec.Coq = fmt.Sprintf("Rx {| r_def := %s; r_out := Some %s; r_set := %s; r_sat := %s |}", coqDefn(def), coqReq(q),
				hx.CoqNList(set), hx.CoqBool(got))
		}

		r.tr.Put(rec)
	}
}

func min(a, b int) int {
	if a < b {
		return a
	}

	return b
}

// genDisclosure: what a verifier can read under limited disclosure.  Leaves: a1..a3 at top level, o5.a1..o5.a3 (the
// same claim names one level down), o6.a1, array-valued a6 and o5.a7; credentials as plain LDP (self-issued or not),
// JWT, SD-JWT and with the subject held as a map; one to three descriptors (limit required / preferred / absent,
// predicates, optional fields) that share the credentials; near misses: the requested name present only at the
// other level, the array where a scalar is asked.
func genDisclosure(r *runner, rng *hx.Rng, thorough bool) {
	n := 420
	if thorough {
		n = 4000
	}

	keys := []int{1, 2, 3, 501, 502, 503, 601, 6, 507}
	// what a field may ask for: the leaves, and elements of the two arrays
	asks := []int{1, 2, 3, 501, 502, 503, 601, 6, 507, 1006, 2006, 3006, 1507, 2507}

	val := func(g *hx.Rng, k int) Val {
		switch {
		case k == 6 || k == 507:
			n := 1 + g.Intn(4)
			v := Val{T: "a", L: []Val{}}

			for j := 0; j < n; j++ {
				if g.Intn(4) == 0 {
					v.L = append(v.L, str(g.Intn(3)))
				} else {
					v.L = append(v.L, num(int64(g.Intn(4))))
				}
			}

			return v
		case g.Intn(3) == 0:
			return str(g.Intn(3))
		default:
			return num(int64(g.Intn(4)))
		}
	}

	for i := 0; i < n; i++ {
		g := rng.Fork(uint64(i))
		nd := 1 + g.Intn(3)

		var descs []Desc

		for d := 1; d <= nd; d++ {
			c := &Cons{}

			switch g.Intn(4) {
			case 0:
			case 1:
				c.Limit = 1
			default:
				c.Limit = 2
			}

			nf := 1 + g.Intn(3)
			for j := 0; j < nf; j++ {
				f := Field{Paths: []int{asks[g.Intn(len(asks))]}}
				if g.Intn(3) == 0 {
					f.Paths = append(f.Paths, asks[g.Intn(len(asks))])
				}

				// one field does not name an array and one of its elements together (the order in which the streaming
				// JSONPath evaluator reports the two is not modelled)
				if len(f.Paths) == 2 && f.Paths[0]%1000 == f.Paths[1]%1000 && (f.Paths[0] >= 1000) != (f.Paths[1] >= 1000) {
					f.Paths = f.Paths[:1]
				}

				switch g.Intn(5) {
				case 0:
					f.Filter = &Filter{Type: 1, Min: i64(int64(g.Intn(3)))}
				case 1:
					f.Filter = &Filter{Type: 2}
				case 2:
					f.Filter = &Filter{Type: 1}
					f.Pred = g.Bool()
				}

				f.Optional = g.Intn(6) == 0
				c.Fields = append(c.Fields, f)
			}

			// a descriptor that names an array and an element of the same array garbles the array (known finding, witnessed
			// in the corpus): such descriptors ask for the element only, except one in forty
			whole := map[int]bool{}
			for _, f := range c.Fields {
				for _, p := range f.Paths {
					if p < 1000 {
						whole[p] = true
					}
				}
			}

			if g.Intn(40) != 0 {
				for j := range c.Fields {
					for x, p := range c.Fields[j].Paths {
						if p >= 1000 && whole[p%1000] {
							c.Fields[j].Paths[x] = p % 1000
						}
					}
				}
			}

			descs = append(descs, Desc{ID: d, Schema: []Sch{{URI: 1}}, Cons: c})
		}

		var reqs []SReq

		if nd >= 2 && g.Intn(3) == 0 {
			for j := range descs {
				descs[j].Groups = []int{1}
			}

			reqs = []SReq{{Min: 1, From: 1}}
		}

		nc := 1 + g.Intn(3)

		var creds []Cred

		form := g.Intn(6)

		for j := 0; j < nc; j++ {
			c := Cred{ID: j + 1, Issuer: 50, Subject: 60, Types: []int{1}}
			if g.Intn(3) != 0 {
				c.Subject = 50 // self-issued: plain credentials may be limited
			}

			f := form
			if g.Intn(4) == 0 {
				f = g.Intn(6)
			}

			switch f {
			case 0, 1, 2:
				c.SD = true
			case 3:
				c.JWT = 1
			case 4:
				c.MapSubject = g.Intn(3) == 0
			case 5:
				if g.Intn(3) == 0 { // BBS+ signing and proof derivation are slow: a few per run
					c.Proofs = []int{3}
				}
			}

			for _, k := range keys {
				if g.Intn(3) != 0 {
					c.Attrs = append(c.Attrs, Attr{K: k, V: val(g, k)})
				}
			}

			creds = append(creds, c)
		}

		r.do("disclosure", Case{Def: Defn{Reqs: reqs, Descs: descs}, Creds: creds}, true)
	}
}

// genSizes: many credentials in one presentation / many presentations: the index arithmetic of the descriptor map
// ($.verifiableCredential[j], $[i]) with one- and two-digit indices, through every entry point.
func genSizes(r *runner, rng *hx.Rng, thorough bool) {
	r.all = true

	defer func() { r.all = false }()

	sizes := []int{1, 2, 9, 10, 11, 12, 25}
	if thorough {
		sizes = append(sizes, 26, 99, 100, 101)
	}

	for _, n := range sizes {
		for variant := 0; variant < 3; variant++ {
			var creds []Cred

			for i := 0; i < n; i++ {
				c := Cred{ID: i + 1, Issuer: 50, Subject: 60, Types: []int{1}, Attrs: []Attr{{K: 1, V: num(int64(i % 3))}, {K: 2, V: str(i % 2)}}}
				if variant == 2 && i%5 == 4 {
					c.JWT = 1
				}

				creds = append(creds, c)
			}

			var descs []Desc

			switch variant {
			case 0: // one descriptor, every credential under it
				descs = []Desc{{ID: 1, Schema: []Sch{{URI: 1}}}}
			case 1: // two descriptors splitting the credentials by a member, one shared class
				descs = []Desc{
					{ID: 1, Schema: []Sch{{URI: 1}}, Cons: &Cons{Fields: []Field{{Paths: []int{1}, Filter: &Filter{Type: 1, Max: i64(1)}}}}},
					{ID: 2, Schema: []Sch{{URI: 1}}, Cons: &Cons{Fields: []Field{{Paths: []int{1}, Filter: &Filter{Type: 1, Min: i64(1)}}}}},
				}
			default: // three descriptors in reverse definition order, the last one over a string member
				descs = []Desc{
					{ID: 3, Schema: []Sch{{URI: 1}}, Cons: &Cons{Fields: []Field{constField(2, str(1))}}},
					{ID: 2, Schema: []Sch{{URI: 1}}, Cons: &Cons{Fields: []Field{constField(1, num(2))}}},
					{ID: 1, Schema: []Sch{{URI: 1}}},
				}
			}

			// shuffle the holder's list in two of three runs
			if variant > 0 {
				for i := len(creds) - 1; i > 0; i-- {
					j := rng.Intn(i + 1)
					creds[i], creds[j] = creds[j], creds[i]
				}
			}

			r.do(fmt.Sprintf("sizes:n%d", n), Case{Def: Defn{Descs: descs}, Creds: creds}, true)
		}
	}
}

func permutations(n int) [][]int {
	if n == 0 {
		return [][]int{{}}
	}

	var out [][]int

	for _, p := range permutations(n - 1) {
		for pos := 0; pos <= len(p); pos++ {
			q := append([]int{}, p[:pos]...)
			q = append(q, n-1)
			q = append(q, p[pos:]...)
			out = append(out, q)
		}
	}

	return out
}

// genContexts: credentials whose type TERM is the same but stands for different IRIs under the two contexts (and a
// term that stands for the same IRI in both), schema lists naming either IRI, every order of the holder's list.
func genContexts(r *runner, rng *hx.Rng, thorough bool) {
	mk := func(id, ctx int, types ...int) Cred {
		return Cred{ID: id, Issuer: 50, Subject: 60, Ctx: ctx, Types: append([]int{1}, types...), Attrs: []Attr{{K: 1, V: num(int64(id))}}}
	}

	sets := [][]Cred{
		{mk(1, 1, 2), mk(2, 2, 2)},
		{mk(1, 1, 2), mk(2, 2, 2), mk(3, 1, 3)},
		{mk(1, 2, 4), mk(2, 1, 4), mk(3, 2, 3)},
		{mk(1, 1, 2, 4), mk(2, 2, 2), mk(3, 2, 4)},
		{mk(1, 2, 2), mk(2, 2, 3), mk(3, 1, 2, 3)},
	}
	schemas := [][]Sch{{{URI: 2}}, {{URI: 12}}, {{URI: 3}}, {{URI: 14}}, {{URI: 4}}, {{URI: 2}, {URI: 14}}, {{URI: 12, Required: true}, {URI: 3}},
		{{URI: 2, Required: true}, {URI: 12, Required: true}}, {{URI: 1}, {URI: 12, Required: true}}}

	r.all = true

	defer func() { r.all = false }()

	for si, set := range sets {
		for ci, sc := range schemas {
			for pi, perm := range permutations(len(set)) {
				if !thorough && len(set) == 3 && rng.Intn(2) == 0 {
					continue
				}

				var creds []Cred
				for _, i := range perm {
					creds = append(creds, set[i])
				}

				descs := []Desc{{ID: 1, Schema: sc}}
				if (si+ci+pi)%3 == 0 {
					descs = append(descs, Desc{ID: 2, Schema: schemas[(ci+3)%len(schemas)], Groups: []int{1}})
					descs[0].Groups = []int{1}
				}

				var reqs []SReq
				if len(descs) == 2 && pi%2 == 0 {
					reqs = []SReq{{Min: 1, From: 1}}
				}

				r.do(fmt.Sprintf("contexts:s%d.c%d", si, ci), Case{Def: Defn{Reqs: reqs, Descs: descs}, Creds: creds}, true)
			}
		}
	}
}
