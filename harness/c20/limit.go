// limit.go: createNewCredential (the field copy of limit disclosure and predicates) driven directly on generated
// credential documents x fields, for comparison with limit_json of coq/C20/JsonPath.v.
package main

import (
	"encoding/json"
	"fmt"
	"strconv"

	"github.com/hyperledger/aries-framework-go/component/models/presexch"
	"github.com/hyperledger/aries-framework-go/component/models/verifiable"

	"verifharness/hx"
)

// LField is one constraints field of a limit case.
type LField struct {
	Paths []string  `json:"paths"`
	Steps [][]PStep `json:"steps,omitempty"`
	Pred  bool      `json:"pred,omitempty"`
}

// LCase is one case of the limit stream.
type LCase struct {
	Doc    JV       `json:"doc"`
	Limit  bool     `json:"limit"`
	Fields []LField `json:"fields"`
}

func member(v JV, k string) (JV, bool) {
	for _, m := range v.O {
		if m.K == k {
			return m.V, true
		}
	}

	return JV{}, false
}

// templateOf: the minimal credential limitDisclosure starts from (id, type, @context, issuer, issuanceDate and the
// subject reduced to its id), members in the order json.Marshal gives a map.
func templateOf(doc JV) JV {
	t := JV{T: "o"}
	subj := JV{T: "o"}

	if s, ok := member(doc, "credentialSubject"); ok {
		if id, ok := member(s, "id"); ok {
			subj.O = append(subj.O, JM{"id", id})
		}
	}

	for _, k := range []string{"@context", "credentialSubject", "id", "issuanceDate", "issuer", "type"} {
		if k == "credentialSubject" {
			t.O = append(t.O, JM{k, subj})
		} else if v, ok := member(doc, k); ok {
			t.O = append(t.O, JM{k, v})
		}
	}

	return t
}

func scalars(v JV, out *[]string) {
	switch v.T {
	case "a":
		for _, x := range v.A {
			scalars(x, out)
		}
	case "o":
		for _, m := range v.O {
			scalars(m.V, out)
		}
	default:
		*out = append(*out, v.canon())
	}
}

// nested: one of the selected locations lies strictly below another one.
func nested(sel [][]lelem) bool {
	for i, a := range sel {
		for j, b := range sel {
			if i != j && len(a) < len(b) && dotted(a) == dotted(b[:len(a)]) && sameLoc(a, b[:len(a)]) {
				return true
			}
		}
	}

	return false
}

func sameLoc(a, b []lelem) bool {
	for i := range a {
		if a[i] != b[i] {
			return false
		}
	}

	return len(a) == len(b)
}

func (r *runner) doLimit(kind string, c LCase, withCoq bool) {
	src := []byte(c.Doc.text())
	rec := &hx.Record{Kind: kind, Case: replayFile{LM: &c, Mode: "limit"}}

	harnessErr := func(err error) {
		rec.Oracle, rec.Sig, rec.Detail, rec.Class = "fail", "harness-error", err.Error(), "harness-error"
		r.tr.Put(rec)
	}

	cred, err := verifiable.ParseCredential(src, r.e.credOpt...)
	if err != nil {
		harnessErr(fmt.Errorf("generated credential does not parse: %w", err))

		return
	}

	req := presexch.Required
	cons := &presexch.Constraints{}

	if c.Limit {
		cons.LimitDisclosure = &req
	}

	var fs []string

	for _, f := range c.Fields {
		pf := &presexch.Field{Path: f.Paths}
		if f.Pred {
			pf.Predicate = &req
		}

		cons.Fields = append(cons.Fields, pf)

		var ps []string
		for _, p := range f.Paths {
			ps = append(ps, hx.CoqString(p))
		}

		fs = append(fs, "("+hx.CoqList(ps)+", "+hx.CoqBool(f.Pred)+")")
	}

	tmpl := c.Doc
	if c.Limit {
		tmpl = templateOf(c.Doc)
	}

	out, err := presexch.VerifCreateNewCredential(cons, src, []byte(tmpl.text()), cred, r.e.credOpt...)

	type obs struct {
		Err string `json:"err,omitempty"`
		Out string `json:"out,omitempty"`
	}

	if err != nil {
		// a holder-side failure (a path text the streaming engine refuses, a limited document that is no credential):
		// the property says nothing; kept for the statistics
		rec.Observed = obs{Err: err.Error()}
		rec.Class, rec.Trivial = "limit/error", true
		rec.Dist = []string{"limit:holder-error"}
		r.tr.Put(rec)

		return
	}

	raw, err := json.Marshal(out)
	if err != nil {
		harnessErr(err)

		return
	}

	var x interface{}

	_ = json.Unmarshal(raw, &x)

	got, ok := fromGo(x)
	if !ok {
		harnessErr(fmt.Errorf("unprojectable output %s", raw))

		return
	}

	rec.Observed = obs{Out: got.canon()}

	// direct oracle on the subject a verifier reads.  (1) only requested: every scalar of the output's subject is a
	// scalar of the template's subject, of a node a field path selects, or a predicate's true / a padding null.
	// (2) requested shown: every scalar a non-predicate field path selects is readable in the output's subject.
	sig, detail := "", ""
	allowed := map[string]bool{"null": true}
	var want []string
	var sel [][]lelem

	if ts, ok := member(tmpl, "credentialSubject"); ok {
		var l []string

		scalars(ts, &l)

		for _, s := range l {
			allowed[s] = true
		}
	}

	for _, f := range c.Fields {
		for _, st := range f.Steps {
			if !kAccepts(st) {
				continue
			}

			for _, n := range refSelect(st, c.Doc, false) {
				sel = append(sel, n.loc)

				if len(n.loc) == 0 || n.loc[0].key != "credentialSubject" {
					continue
				}

				var l []string

				scalars(n.v, &l)

				if f.Pred {
					allowed["true"] = true
				}

				for _, s := range l {
					if !f.Pred {
						allowed[s] = true
						want = append(want, s)
					}
				}
			}
		}
	}

	var shown []string
	if gs, ok := member(got, "credentialSubject"); ok {
		scalars(gs, &shown)
	}

	have := map[string]bool{}
	for _, s := range shown {
		have[s] = true

		if !allowed[s] && sig == "" {
			sig, detail = "limit-json-reveals-unrequested-value", s
		}
	}

	predAll := false
	for _, f := range c.Fields {
		predAll = predAll || f.Pred
	}

	for _, s := range want {
		// a predicate field naming the same node overwrites the value with true: not judged
		if !have[s] && sig == "" && !predAll {
			sig, detail = "limit-json-requested-value-missing", s
			if nested(sel) {
				// a node written whole and a node below it written at its compacted position: the recorded finding
				sig = "limited-or-predicate-credential-garbled/array-and-element-of-it-both-requested"
			}
		}
	}

	if sig != "" {
		rec.Oracle, rec.Sig, rec.Detail = "fail", sig, detail
	}

	if withCoq {
		rec.Coq = fmt.Sprintf("Lx {| l_limit := %s; l_src := %s; l_tmpl := %s; l_fields := %s; l_out := %s |}",
			hx.CoqBool(c.Limit), c.Doc.coq(), tmpl.coq(), hx.CoqList(fs), got.coq())
	}

	rec.Class = fmt.Sprintf("limit/%v/%d/%d", c.Limit, len(c.Fields), len(shown))
	rec.Dist = []string{"limit:" + strconv.FormatBool(c.Limit)}

	for _, f := range c.Fields {
		if f.Pred {
			rec.Dist = append(rec.Dist, "limit:predicate-field")
		}

		for _, st := range f.Steps {
			if len(st) > 0 && st[0].K == "name" && st[0].S != "credentialSubject" {
				rec.Dist = append(rec.Dist, "limit:path-outside-subject")
			}
		}
	}

	r.tr.Put(rec)
}

// randVC: a credential document ParseCredential accepts, with a random subject.
func randVC(rng *hx.Rng) JV {
	doc := JV{T: "o"}
	doc.O = append(doc.O, JM{"@context", JV{T: "a", A: []JV{js(verifiable.ContextURI), js(ctxURL)}}})
	doc.O = append(doc.O, JM{"id", js("urn:c:" + strconv.Itoa(1+rng.Intn(3)))})

	ty := JV{T: "a", A: []JV{js("VerifiableCredential")}}
	for i, n := 0, rng.Intn(3); i < n; i++ {
		ty.A = append(ty.A, js("T"+strconv.Itoa(2+i)))
	}

	doc.O = append(doc.O, JM{"type", ty})

	if rng.Bool() {
		doc.O = append(doc.O, JM{"issuer", js("did:ex:1")})
	} else {
		doc.O = append(doc.O, JM{"issuer", JV{T: "o", O: []JM{{"id", js("did:ex:1")}, {"name", js("ab")}}}})
	}

	doc.O = append(doc.O, JM{"issuanceDate", js("2020-01-01T00:00:00Z")})

	subj := JV{T: "o"}
	if rng.Intn(4) > 0 {
		subj.O = append(subj.O, JM{"id", js("did:ex:2")})
	}

	names := []string{"a1", "a2", "a3", "o5", "a6", "n_1", "k"}
	if rng.Intn(5) == 0 {
		names = append(names, "x.y")
	}

	for i, n := 0, 1+rng.Intn(4); i < n; i++ {
		j := rng.Intn(len(names))
		subj.O = append(subj.O, JM{names[j], randValueNoID(rng, 2)})
		names = append(names[:j], names[j+1:]...)
	}

	at := rng.Intn(len(doc.O) + 1)
	doc.O = append(doc.O[:at], append([]JM{{"credentialSubject", subj}}, doc.O[at:]...)...)

	return doc
}

func genLimit(r *runner, rng *hx.Rng, thorough bool) {
	n := 200
	if thorough {
		n = 3000
	}

	for i := 0; i < n; i++ {
		doc := randVC(rng)
		c := LCase{Doc: doc, Limit: rng.Intn(4) > 0}

		for k, nf := 0, 1+rng.Intn(3); k < nf; k++ {
			f := LField{Pred: rng.Intn(5) == 0}

			for j, np := 0, 1+rng.Intn(2); j < np; j++ {
				st := randPath(rng, doc)

				// mostly inside the subject
				for t := 0; t < 3 && rng.Intn(4) > 0 && (len(st) == 0 || st[0].S != "credentialSubject"); t++ {
					st = randPath(rng, doc)
				}

				for q := range st { // the notations the streaming engine reads
					if st[q].K == "name" && st[q].Q == 1 {
						st[q].Q = 2
					}

					if st[q].K == "desc" {
						st[q] = PStep{K: "name", S: st[q].S}
					}
				}

				f.Steps = append(f.Steps, st)
				f.Paths = append(f.Paths, renderPath(st))
			}

			c.Fields = append(c.Fields, f)
		}

		r.doLimit("limit", c, true)
	}
}

// randValueNoID: a random value without members called id (JSON-LD wants a string there).
func randValueNoID(rng *hx.Rng, depth int) JV {
	v := randValue(rng, depth)

	var strip func(v JV) JV

	strip = func(v JV) JV {
		switch v.T {
		case "a":
			for i := range v.A {
				v.A[i] = strip(v.A[i])
			}
		case "o":
			var keep []JM

			for _, m := range v.O {
				if m.K != "id" {
					keep = append(keep, JM{m.K, strip(m.V)})
				}
			}

			v.O = keep
		}

		return v
	}

	return strip(v)
}
