// c18: drives the real SD-JWT issuer -> holder -> verifier (component/models/sdjwt, one KMS per party, real
// Ed25519 signatures through the Tink crypto service) over generated claim trees x issuer options x chosen
// disclosure subsets x verifier-side attacks x holder-binding configurations, and records what they did as
// symbolic terms (a digest string is replaced by the disclosure it is the hash of) for the Coq model (coq/C18).
package main

import (
	"crypto"
	"crypto/ed25519"
	"crypto/sha256"
	"crypto/sha512"
	"encoding/base64"
	"encoding/json"
	"fmt"
	"os"
	"path/filepath"
	"reflect"
	"sort"
	"strconv"
	"strings"
	"time"

	"github.com/go-jose/go-jose/v3/jwt"

	"github.com/hyperledger/aries-framework-go/component/kmscrypto/crypto/tinkcrypto"
	"github.com/hyperledger/aries-framework-go/component/kmscrypto/doc/jose"
	"github.com/hyperledger/aries-framework-go/component/kmscrypto/doc/jose/jwk"
	"github.com/hyperledger/aries-framework-go/component/kmscrypto/doc/jose/jwk/jwksupport"
	"github.com/hyperledger/aries-framework-go/component/kmscrypto/kms/localkms"
	mockkms "github.com/hyperledger/aries-framework-go/component/kmscrypto/mock/kms"
	"github.com/hyperledger/aries-framework-go/component/kmscrypto/secretlock/noop"
	afjwt "github.com/hyperledger/aries-framework-go/component/models/jwt"
	"github.com/hyperledger/aries-framework-go/component/models/sdjwt/common"
	"github.com/hyperledger/aries-framework-go/component/models/sdjwt/holder"
	"github.com/hyperledger/aries-framework-go/component/models/sdjwt/issuer"
	"github.com/hyperledger/aries-framework-go/component/models/sdjwt/verifier"
	sigutil "github.com/hyperledger/aries-framework-go/component/models/signature/util"
	"github.com/hyperledger/aries-framework-go/component/models/verifiable"
	"github.com/hyperledger/aries-framework-go/component/storageutil/mem"
	kmsapi "github.com/hyperledger/aries-framework-go/spi/kms"

	"verifharness/hx"
)

func must(err error) {
	if err != nil {
		fmt.Fprintln(os.Stderr, "c18:", err)
		os.Exit(2)
	}
}

// ---------- parties ----------

type party struct {
	name   string
	sym    int // key symbol in the model
	signer jose.Signer
	pub    ed25519.PublicKey
	ver    jose.SignatureVerifier
	jwk    *jwk.JWK
}

func newParty(name string, sym int) *party {
	p, err := mockkms.NewProviderForKMS(mem.NewProvider(), &noop.NoLock{})
	must(err)

	k, err := localkms.New("local-lock://"+name, p)
	must(err)

	c, err := tinkcrypto.New()
	must(err)

	s, err := sigutil.NewCryptoSigner(c, k, kmsapi.ED25519Type)
	must(err)

	pub := ed25519.PublicKey(s.PublicKeyBytes())
	v, err := afjwt.NewEd25519Verifier(pub)
	must(err)

	j, err := jwksupport.JWKFromKey(pub)
	must(err)

	return &party{name: name, sym: sym, signer: verifiable.GetJWTSigner(s, "EdDSA"), pub: pub, ver: v, jwk: j}
}

var (
	pIssuer, pHolder, pAttacker *party
)

// ---------- scenario ----------

// Opts are the issuer options (paths in the repo's syntax: a.b, a.b[0]).
type Opts struct {
	V5         bool     `json:"v5"`
	Alg        int      `json:"alg"` // 256 | 384 | 512
	Structured bool     `json:"structured"`
	Decoys     bool     `json:"decoys"`
	NonSD      []string `json:"nonsd,omitempty"`
	Always     []string `json:"always,omitempty"`
	Recursive  []string `json:"recursive,omitempty"`
	Cnf        bool     `json:"cnf"`
	// IssTime: "" (no time claims) | valid | expired | notyet | futureiat (hours away, the leeway is a minute)
	IssTime string `json:"iss_time,omitempty"`
}

// Play is one presentation of an issued SD-JWT and one verifier call.
type Play struct {
	// Sel: chosen disclosure sites (repo path syntax).
	Sel []string `json:"sel"`
	// Attack: "" | foreign | foreign-crafted | duplicate | alter-value | alter-name | alter-salt | reencode |
	// orphan | arity4 | arity1 | garbage | as-element | bad-issuer-sig | dup-digest |
	// pad1 pad2 bits lf cr (another text of the same disclosure instead of it) and the same with "+" (next to it)
	Attack string `json:"attack,omitempty"`
	// Victim: index (into the chosen disclosures) of the disclosure an attack works on; -1 or out of range = the last
	Victim int `json:"victim"`
	// holder binding
	HB      string `json:"hb,omitempty"` // "" none | holder | attacker
	HBNonce string `json:"hb_nonce,omitempty"`
	HBAud   string `json:"hb_aud,omitempty"`
	// HBIat: "" (now) | future (two hours ahead: iat outside the leeway) | past (two hours ago)
	HBIat    string `json:"hb_iat,omitempty"`
	Required bool   `json:"required,omitempty"`
	VNonce   string `json:"v_nonce,omitempty"`
	VAud     string `json:"v_aud,omitempty"`
}

// Scenario is one issuance and the plays on it.
type Scenario struct {
	Claims string `json:"claims"`
	Opts   Opts   `json:"opts"`
	Plays  []Play `json:"plays"`
	// AllSubsets: additionally play every parent-closed subset (and a few orphans) of the issued disclosures.
	AllSubsets bool   `json:"all_subsets,omitempty"`
	Note       string `json:"note,omitempty"`
}

// ---------- JSON helpers ----------

func isNumber(v interface{}) (float64, bool) {
	switch t := v.(type) {
	case float64:
		return t, true
	case int:
		return float64(t), true
	case int64:
		return float64(t), true
	case json.Number:
		f, err := t.Float64()
		return f, err == nil
	}

	rv := reflect.ValueOf(v)
	if rv.IsValid() && rv.Kind() == reflect.String && rv.Type().Name() == "Number" {
		f, err := strconv.ParseFloat(rv.String(), 64)
		return f, err == nil
	}

	return 0, false
}

// plain normalises numbers to float64 and typed maps/slices to generic ones.
func plain(v interface{}) interface{} {
	if f, ok := isNumber(v); ok {
		return f
	}

	switch t := v.(type) {
	case map[string]interface{}:
		m := map[string]interface{}{}
		for k, x := range t {
			m[k] = plain(x)
		}

		return m
	case []interface{}:
		l := make([]interface{}, 0, len(t))
		for _, x := range t {
			l = append(l, plain(x))
		}

		return l
	case map[string]string:
		m := map[string]interface{}{}
		for k, x := range t {
			m[k] = x
		}

		return m
	case nil, string, bool:
		return t
	}

	// anything else (jwk, typed structs): through JSON
	b, err := json.Marshal(v)
	if err != nil {
		return fmt.Sprintf("%v", v)
	}

	var out interface{}
	if json.Unmarshal(b, &out) != nil {
		return string(b)
	}

	return out
}

func jsonOf(v interface{}) string {
	b, _ := json.Marshal(v)
	return string(b)
}

// ---------- symbolisation ----------

type sym struct {
	alg      int
	content  map[string]int      // decoded JSON content (or the raw string when undecodable) -> salt symbol
	variants map[string]int      // content -> number of distinct texts seen
	enc      map[string]int      // disclosure string -> text variant (0 = the first text seen of its content)
	discIdx  map[string]int      // disclosure string -> salt symbol
	byDig    map[string]string   // digest string -> disclosure string
	decoys   map[string]int      // unknown digest string -> decoy symbol
	parsed   map[string]*decoded // disclosure string -> decoded
}

type decoded struct {
	canon string // compact JSON of the decoded array
	e     int
	salt  string
	name  string
	val   interface{}
}

func hashOf(alg int, s string) string {
	switch alg {
	case 384:
		h := sha512.Sum384([]byte(s))
		return base64.RawURLEncoding.EncodeToString(h[:])
	case 512:
		h := sha512.Sum512([]byte(s))
		return base64.RawURLEncoding.EncodeToString(h[:])
	default:
		h := sha256.Sum256([]byte(s))
		return base64.RawURLEncoding.EncodeToString(h[:])
	}
}

func decodeDisc(s string) *decoded {
	d := &decoded{}

	raw, err := base64.RawURLEncoding.DecodeString(s)
	if err != nil {
		return d
	}

	var arr []interface{}
	if json.Unmarshal(raw, &arr) != nil || len(arr) < 2 {
		if len(arr) == 1 {
			d.e = 1
		}

		return d
	}

	salt, ok := arr[0].(string)
	if !ok {
		return d
	}

	cb, _ := json.Marshal(arr)
	d.canon = string(cb)
	d.salt = salt
	d.e = len(arr)

	switch len(arr) {
	case 2:
		d.val = arr[1]
	case 3:
		name, ok := arr[1].(string)
		if !ok {
			d.e = 0
			return d
		}

		d.name = name
		d.val = arr[2]
	}

	return d
}

func newSym(alg int) *sym {
	return &sym{alg: alg, content: map[string]int{}, variants: map[string]int{}, enc: map[string]int{}, discIdx: map[string]int{}, byDig: map[string]string{}, decoys: map[string]int{}, parsed: map[string]*decoded{}}
}

// know registers a disclosure string (issued or crafted).
func (s *sym) know(d string) {
	if _, ok := s.discIdx[d]; ok {
		return
	}

	pd := decodeDisc(d)
	s.parsed[d] = pd

	// texts that decode to the same JSON are variants of one disclosure: same salt symbol, another enc
	key := "raw:" + d
	if pd.e >= 2 {
		key = "json:" + pd.canon
	}

	if _, ok := s.content[key]; !ok {
		s.content[key] = len(s.content)
	}

	s.discIdx[d] = s.content[key]
	s.enc[d] = s.variants[key]
	s.variants[key]++
	s.byDig[hashOf(s.alg, d)] = d
}

func (s *sym) digest(dg string) string {
	if d, ok := s.byDig[dg]; ok {
		p := s.parsed[d]
		v := "VNull"
		if p.e == 2 || p.e == 3 {
			v = s.val(p.val, false)
		}

		return fmt.Sprintf("(VDig %d%%N %d%%N %d%%N [SIdx %d%%N] %s %s)", s.alg, s.enc[d], p.e, s.discIdx[d], hx.CoqString(p.name), v)
	}

	if _, ok := s.decoys[dg]; !ok {
		s.decoys[dg] = len(s.decoys)
	}

	return fmt.Sprintf("(VDig %d%%N 0%%N 0%%N [SDecoy %d%%N] \"\" VNull)", s.alg, s.decoys[dg])
}

func (s *sym) disc(d string) string {
	s.know(d)
	p := s.parsed[d]
	v := "VNull"

	if p.e == 2 || p.e == 3 {
		v = s.val(p.val, false)
	}

	return fmt.Sprintf("{| d_enc := %d%%N; d_e := %d%%N; d_salt := [SIdx %d%%N]; d_name := %s; d_val := %s |}", s.enc[d], p.e, s.discIdx[d], hx.CoqString(p.name), v)
}

func (s *sym) discs(ds []string) string {
	out := make([]string, len(ds))
	for i, d := range ds {
		out[i] = s.disc(d)
	}

	return hx.CoqList(out)
}

// val prints a JSON value as a Gallina term; strings under "_sd" and in {"...": s} array elements are digests.
func (s *sym) val(v interface{}, inSD bool) string {
	if f, ok := isNumber(v); ok {
		return fmt.Sprintf("(VNum (%d)%%Z)", int64(f))
	}

	switch t := v.(type) {
	case nil:
		return "VNull"
	case bool:
		return "(VBool " + hx.CoqBool(t) + ")"
	case string:
		if inSD {
			return s.digest(t)
		}

		return "(VStr " + hx.CoqString(t) + ")"
	case []interface{}:
		items := make([]string, len(t))

		for i, x := range t {
			if m, ok := x.(map[string]interface{}); ok && !inSD {
				if dg, ok := m[common.ArrayElementDigestKey].(string); ok && len(m) == 1 {
					items[i] = "(VObj [(\"...\", " + s.digest(dg) + ")])"
					continue
				}
			}

			items[i] = s.val(x, inSD)
		}

		return "(VArr " + hx.CoqList(items) + ")"
	case map[string]interface{}:
		keys := make([]string, 0, len(t))
		for k := range t {
			keys = append(keys, k)
		}

		sort.Strings(keys)

		items := make([]string, len(keys))

		for i, k := range keys {
			x := t[k]

			switch {
			case k == common.SDKey:
				items[i] = "(" + hx.CoqString(k) + ", " + s.val(x, true) + ")"
			case k == "jwk":
				items[i] = "(\"jwk\", (VNum (" + strconv.Itoa(keySymbol(x)) + ")%Z))"
			default:
				items[i] = "(" + hx.CoqString(k) + ", " + s.val(x, false) + ")"
			}
		}

		return "(VObj " + hx.CoqList(items) + ")"
	}

	return s.val(plain(v), inSD)
}

func keySymbol(j interface{}) int {
	m, ok := plain(j).(map[string]interface{})
	if !ok {
		return 99
	}

	x, _ := m["x"].(string)
	for _, p := range []*party{pIssuer, pHolder, pAttacker} {
		if x == base64.RawURLEncoding.EncodeToString(p.pub) {
			return p.sym
		}
	}

	return 99
}

// members prints the members of an object (the claims) as a Gallina assoc list.
func (s *sym) members(m map[string]interface{}) string {
	t := s.val(m, false)
	return strings.TrimSuffix(strings.TrimPrefix(t, "(VObj "), ")")
}

// ---------- paths ----------

type pstep struct {
	key string
	idx int // -1 for a key step
}

func repoPath(p []pstep) string {
	var b strings.Builder

	for i, s := range p {
		if s.idx >= 0 {
			b.WriteString(fmt.Sprintf("[%d]", s.idx))
			continue
		}

		if i > 0 {
			b.WriteByte('.')
		}

		b.WriteString(s.key)
	}

	return b.String()
}

func parseRepoPath(s string) []pstep {
	var out []pstep

	for _, part := range strings.Split(s, ".") {
		for part != "" {
			if i := strings.IndexByte(part, '['); i >= 0 {
				if i > 0 {
					out = append(out, pstep{key: part[:i], idx: -1})
				}

				j := strings.IndexByte(part, ']')
				n, _ := strconv.Atoi(part[i+1 : j])
				out = append(out, pstep{idx: n})
				part = part[j+1:]
			} else {
				out = append(out, pstep{key: part, idx: -1})
				part = ""
			}
		}
	}

	return out
}

func coqPath(s string) string {
	steps := parseRepoPath(s)
	items := make([]string, len(steps))

	for i, st := range steps {
		if st.idx >= 0 {
			items[i] = fmt.Sprintf("SIdx %d%%N", st.idx)
		} else {
			items[i] = "SKey " + hx.CoqString(st.key)
		}
	}

	return hx.CoqList(items)
}

func coqPaths(l []string) string {
	items := make([]string, len(l))
	for i, s := range l {
		items[i] = coqPath(s)
	}

	return hx.CoqList(items)
}

func (o *Opts) coq(cnfSym int) string {
	dec := 0
	if o.Decoys {
		dec = 1
	}

	cnf := "None"
	if o.Cnf {
		cnf = fmt.Sprintf("(Some (%d)%%Z)", cnfSym)
	}

	return fmt.Sprintf("{| o_v5 := %s; o_alg := %d%%N; o_structured := %s; o_decoys := %d%%nat; o_nonsd := %s; o_always := %s; o_recursive := %s; o_iss := \"iss\"; o_cnf := %s |}",
		hx.CoqBool(o.V5), o.Alg, hx.CoqBool(o.Structured), dec, coqPaths(o.NonSD), coqPaths(o.Always), coqPaths(o.Recursive), cnf)
}

// ---------- the issued structure: where each disclosure sits ----------

type site struct {
	disc   string
	path   string // repo syntax
	parent string // disclosure string of the parent disclosure, "" at payload level
}

// locate walks the payload and the disclosure values and finds the site of every issued disclosure.
func locate(payload map[string]interface{}, s *sym) map[string]*site {
	sites := map[string]*site{}

	var walk func(v interface{}, p []pstep, parent string)

	enter := func(dg string, p []pstep, parent string, viaArray bool) {
		d, ok := s.byDig[dg]
		if !ok {
			return
		}

		pd := s.parsed[d]
		if pd.e < 2 {
			return // a decoy salt of the v5 disclosure list: not a disclosure of anything
		}

		sp := append([]pstep{}, p...)

		if !viaArray {
			sp = append(sp, pstep{key: pd.name, idx: -1})
		}

		sites[d] = &site{disc: d, path: repoPath(sp), parent: parent}
		walk(pd.val, sp, d)
	}

	walk = func(v interface{}, p []pstep, parent string) {
		switch t := v.(type) {
		case map[string]interface{}:
			for k, x := range t {
				if k == common.SDKey {
					if l, ok := x.([]interface{}); ok {
						for _, g := range l {
							if gs, ok := g.(string); ok {
								enter(gs, p, parent, false)
							}
						}
					}

					continue
				}

				walk(x, append(append([]pstep{}, p...), pstep{key: k, idx: -1}), parent)
			}
		case []interface{}:
			for i, x := range t {
				ep := append(append([]pstep{}, p...), pstep{idx: i})

				if m, ok := x.(map[string]interface{}); ok {
					if gs, ok := m[common.ArrayElementDigestKey].(string); ok && len(m) == 1 {
						enter(gs, ep, parent, true)
						continue
					}
				}
			}
		}
	}

	walk(plain(payload), nil, "")

	return sites
}

// prune computes the direct oracle's expectation: the claims without the undisclosed sites.
func prune(v interface{}, p []pstep, hidden map[string]bool) (interface{}, bool) {
	if hidden[repoPath(p)] && len(p) > 0 {
		return nil, false
	}

	switch t := v.(type) {
	case map[string]interface{}:
		m := map[string]interface{}{}

		for k, x := range t {
			if y, ok := prune(x, append(append([]pstep{}, p...), pstep{key: k, idx: -1}), hidden); ok {
				m[k] = y
			}
		}

		return m, true
	case []interface{}:
		l := []interface{}{}

		for i, x := range t {
			if y, ok := prune(x, append(append([]pstep{}, p...), pstep{idx: i}), hidden); ok {
				l = append(l, y)
			}
		}

		return l, true
	}

	return v, true
}

// quirk erases the difference made by the known deviation: null members and arrays left without elements.
func quirk(v interface{}, inArray bool) interface{} {
	switch t := v.(type) {
	case map[string]interface{}:
		m := map[string]interface{}{}

		for k, x := range t {
			y := quirk(x, false)
			if y == nil {
				continue
			}

			m[k] = y
		}

		return m
	case []interface{}:
		if len(t) == 0 {
			return nil
		}

		l := make([]interface{}, len(t))
		for i, x := range t {
			l[i] = quirk(x, true)
		}

		return l
	}

	return v
}

func hasNullOrEmpty(v interface{}) bool {
	switch t := v.(type) {
	case nil:
		return true
	case map[string]interface{}:
		for _, x := range t {
			if hasNullOrEmpty(x) {
				return true
			}
		}
	case []interface{}:
		if len(t) == 0 {
			return true
		}

		for _, x := range t {
			if hasNullOrEmpty(x) {
				return true
			}
		}
	}

	return false
}

// leafTokens collects the primitive leaves below a value (tokens are unique per claim tree).
func leafTokens(v interface{}, out *[]string) {
	switch t := v.(type) {
	case map[string]interface{}:
		for _, x := range t {
			leafTokens(x, out)
		}
	case []interface{}:
		for _, x := range t {
			leafTokens(x, out)
		}
	case string:
		*out = append(*out, "\""+t+"\"")
	case float64:
		*out = append(*out, strconv.FormatInt(int64(t), 10))
	}
}

func at(v interface{}, p []pstep) (interface{}, bool) {
	for _, s := range p {
		if s.idx >= 0 {
			l, ok := v.([]interface{})
			if !ok || s.idx >= len(l) {
				return nil, false
			}

			v = l[s.idx]
		} else {
			m, ok := v.(map[string]interface{})
			if !ok {
				return nil, false
			}

			v, ok = m[s.key]
			if !ok {
				return nil, false
			}
		}
	}

	return v, true
}

// ---------- running a scenario ----------

type runner struct {
	tr   *hx.Trace
	kind string
	coq  bool
}

func (o *Opts) issuerOpts() []issuer.NewOpt {
	h := crypto.SHA256

	switch o.Alg {
	case 384:
		h = crypto.SHA384
	case 512:
		h = crypto.SHA512
	}

	v := common.SDJWTVersionV2
	if o.V5 {
		v = common.SDJWTVersionV5
	}

	out := []issuer.NewOpt{issuer.WithSDJWTVersion(v), issuer.WithHashAlgorithm(h), issuer.WithStructuredClaims(o.Structured),
		issuer.WithDecoyDigests(o.Decoys)}

	if len(o.NonSD) > 0 {
		out = append(out, issuer.WithNonSelectivelyDisclosableClaims(o.NonSD))
	}

	if len(o.Always) > 0 {
		out = append(out, issuer.WithAlwaysIncludeObjects(o.Always))
	}

	if len(o.Recursive) > 0 {
		out = append(out, issuer.WithRecursiveClaimsObjects(o.Recursive))
	}

	if o.Cnf {
		out = append(out, issuer.WithHolderPublicKey(pHolder.jwk))
	}

	now := time.Now()

	switch o.IssTime {
	case "valid":
		out = append(out, issuer.WithIssuedAt(jwt.NewNumericDate(now.Add(-time.Hour))), issuer.WithNotBefore(jwt.NewNumericDate(now.Add(-time.Hour))),
			issuer.WithExpiry(jwt.NewNumericDate(now.Add(3*time.Hour))))
	case "expired":
		out = append(out, issuer.WithIssuedAt(jwt.NewNumericDate(now.Add(-5*time.Hour))), issuer.WithExpiry(jwt.NewNumericDate(now.Add(-2*time.Hour))))
	case "notyet":
		out = append(out, issuer.WithNotBefore(jwt.NewNumericDate(now.Add(2*time.Hour))), issuer.WithExpiry(jwt.NewNumericDate(now.Add(5*time.Hour))))
	case "futureiat":
		out = append(out, issuer.WithIssuedAt(jwt.NewNumericDate(now.Add(2*time.Hour))))
	}

	return out
}

type issued struct {
	tok     *issuer.SelectiveDisclosureJWT
	cfi     string
	payload map[string]interface{}
	discs   []string
	s       *sym
	sites   map[string]*site
	claims  map[string]interface{}
}

func doIssue(claims map[string]interface{}, o *Opts, signer jose.Signer) (is *issued, status int, detail string) {
	defer func() {
		if r := recover(); r != nil {
			is, status, detail = nil, 2, fmt.Sprint(r)
		}
	}()

	in := plain(claims).(map[string]interface{}) // the issuer keeps references into its input

	tok, err := issuer.New("iss", in, nil, signer, o.issuerOpts()...)
	if err != nil {
		return nil, 1, err.Error()
	}

	cfi, err := tok.Serialize(false)
	if err != nil {
		return nil, 1, err.Error()
	}

	// the payload as it is on the wire (the in-memory map still holds the issuer's Go values, e.g. nil slices)
	seg := strings.Split(strings.Split(cfi, common.CombinedFormatSeparator)[0], ".")
	if len(seg) != 3 {
		return nil, 1, "not a compact JWS"
	}

	pb, err := base64.RawURLEncoding.DecodeString(seg[1])
	if err != nil {
		return nil, 1, err.Error()
	}

	var wirePayload map[string]interface{}
	if err = json.Unmarshal(pb, &wirePayload); err != nil {
		return nil, 1, err.Error()
	}

	is = &issued{tok: tok, cfi: cfi, payload: wirePayload, discs: common.ParseCombinedFormatForIssuance(cfi).Disclosures, s: newSym(o.Alg), claims: claims}
	for _, d := range is.discs {
		is.s.know(d)
	}

	is.sites = locate(is.payload, is.s)

	return is, 0, ""
}

func (r *runner) put(rec *hx.Record) {
	if !r.coq {
		rec.Coq = ""
	}

	rec.Kind = r.kind
	r.tr.Put(rec)
}

func distOf(sc *Scenario) []string {
	o := &sc.Opts
	v := "v2"

	if o.V5 {
		v = "v5"
	}

	d := []string{v, fmt.Sprintf("sha-%d", o.Alg)}

	if o.Structured {
		d = append(d, "structured")
	} else {
		d = append(d, "flat")
	}

	if o.Decoys {
		d = append(d, "decoys")
	}

	if len(o.Recursive) > 0 {
		d = append(d, "recursive")
	}

	if len(o.Always) > 0 {
		d = append(d, "always-include")
	}

	if len(o.NonSD) > 0 {
		d = append(d, "non-sd")
	}

	var claims interface{}
	if json.Unmarshal([]byte(sc.Claims), &claims) == nil {
		d = append(d, fmt.Sprintf("depth-%d", depthOf(claims)))
	}

	return d
}

func depthOf(v interface{}) int {
	n := 0

	switch t := v.(type) {
	case map[string]interface{}:
		for _, x := range t {
			if k := 1 + depthOf(x); k > n {
				n = k
			}
		}
	case []interface{}:
		for _, x := range t {
			if k := 1 + depthOf(x); k > n {
				n = k
			}
		}
	}

	return n
}

func (r *runner) run(sc *Scenario) {
	var claims map[string]interface{}

	if err := json.Unmarshal([]byte(sc.Claims), &claims); err != nil {
		return
	}

	o := &sc.Opts
	dist := distOf(sc)
	base := Scenario{Claims: sc.Claims, Opts: sc.Opts, Note: sc.Note}

	is, st, detail := doIssue(claims, o, pIssuer.signer)

	// --- the issuance itself
	{
		rec := &hx.Record{Case: base, Class: "issue|" + strings.Join(dist, ",") + "|" + strconv.Itoa(st), Dist: append([]string{"issue"}, dist...),
			Observed: map[string]interface{}{"status": st, "detail": detail}}
		s0 := newSym(o.Alg)

		if st == 0 && o.IssTime != "" {
			rec.Observed = map[string]interface{}{"payload": is.payload, "disclosures": len(is.discs)}
		} else if st == 0 {
			rec.Coq = fmt.Sprintf("CIssue %s %s 0%%N %s %s", o.coq(pHolder.sym), s0.members(claims), is.s.val(is.payload, false), is.s.discs(is.discs))
			rec.Observed = map[string]interface{}{"payload": is.payload, "disclosures": len(is.discs)}
		} else {
			rec.Coq = fmt.Sprintf("CIssue %s %s %d%%N VNull []", o.coq(pHolder.sym), s0.members(claims), st)
			rec.Trivial = true
		}

		r.put(rec)
	}

	if st != 0 {
		return
	}

	// --- holder.Parse of what the issuer emitted
	hclaims, herr := holder.Parse(is.cfi, holder.WithSignatureVerifier(pIssuer.ver))
	{
		items := []string{}
		for _, c := range hclaims {
			items = append(items, "("+hx.CoqString(c.Name)+", "+is.s.val(plain(c.Value), false)+")")
		}

		rec := &hx.Record{Case: base, Class: "holder|" + strings.Join(dist, ",") + fmt.Sprint(herr == nil), Dist: append([]string{"holder-parse"}, dist...),
			Coq:      fmt.Sprintf("CHolder %s %s %s %s", is.s.val(is.payload, false), is.s.discs(is.discs), hx.CoqBool(herr == nil), hx.CoqList(items)),
			Observed: map[string]interface{}{"ok": herr == nil, "err": fmt.Sprint(herr), "claims": len(hclaims)}}

		// issue_parseable: what the issuer emits is accepted by the holder
		if herr != nil {
			rec.Oracle = "fail"
			rec.Detail = "holder.Parse refuses the SD-JWT the issuer emitted: " + herr.Error()
			rec.Sig = "issue-not-parseable"

			if o.V5 && o.Decoys {
				rec.Sig = "v5-decoy-digests-emitted-as-disclosures"
			}
		}

		r.put(rec)
	}

	plays := append([]Play{}, sc.Plays...)

	if sc.AllSubsets {
		plays = append(plays, subsetPlays(is)...)
	}

	for i := range plays {
		r.play(sc, is, &plays[i], dist)
	}
}

// the disclosures the holder may choose from (decoy strings of v5 are not disclosures of anything)
func (is *issued) real() []string {
	var out []string

	for _, d := range is.discs {
		if _, ok := is.sites[d]; ok {
			out = append(out, d)
		}
	}

	sort.Slice(out, func(i, j int) bool { return is.sites[out[i]].path < is.sites[out[j]].path })

	return out
}

func subsetPlays(is *issued) []Play {
	ds := is.real()
	if len(ds) > 6 {
		ds = ds[:6]
	}

	var out []Play

	for mask := 0; mask < 1<<len(ds); mask++ {
		p := Play{Sel: []string{}}
		in := map[string]bool{}

		for i, d := range ds {
			if mask&(1<<i) != 0 {
				p.Sel = append(p.Sel, is.sites[d].path)
				in[d] = true
			}
		}

		closed := true

		for d := range in {
			if par := is.sites[d].parent; par != "" && !in[par] {
				closed = false
			}
		}

		if !closed {
			p.Attack = "orphan"
		}

		out = append(out, p)
	}

	return out
}

func (is *issued) bySite(path string) (string, bool) {
	for d, s := range is.sites {
		if s.path == path {
			return d, true
		}
	}

	return "", false
}

func reencode(arr []interface{}, style int) string {
	b, _ := json.Marshal(arr)
	if style == 1 { // white space after the opening bracket: another text of the same JSON
		b = append([]byte("[ "), b[1:]...)
	}

	return base64.RawURLEncoding.EncodeToString(b)
}

const b64url = "ABCDEFGHIJKLMNOPQRSTUVWXYZabcdefghijklmnopqrstuvwxyz0123456789-_"

// signPayload: the issuer's key over a payload of the attacker's (or a careless issuer's) making.
func signPayload(mod map[string]interface{}) (string, bool) {
	tok, err := afjwt.NewSigned(mod, nil, pIssuer.signer)
	if err != nil {
		return "", false
	}

	ser, err := tok.Serialize(false)

	return ser, err == nil
}

// errClass: the class of the error verifier.Parse reported, by its message (Walk.v wclass_code; 0 = no error).
func errClass(err error) int {
	if err == nil {
		return 0
	}

	m := err.Error()
	has := func(x string) bool { return strings.Contains(m, x) }

	switch {
	case has("run holder verification"):
		return 10
	case has("check disclosures: duplicate values"):
		return 3
	case has("has been included in more than one place"):
		return 5
	case has("invald disclosure associated with"):
		return 6
	case has("already exists at the same level"):
		return 7
	case has("invalid array struct"), has("get disclosure digests"):
		return 8
	case has("not found in SD-JWT disclosure digests"):
		return 9
	case has("failed to decode disclosure"), has("failed to unmarshal disclosure array"), has("disclosure array size"),
		has("disclosure salt type"), has("disclosure name type"):
		return 4
	case has("invalid JWT time values"):
		return 2
	case has(common.SDAlgorithmKey):
		return 11
	}

	return 1
}

// textVariant returns another string for the same disclosure.
func textVariant(d, kind string) (string, bool) {
	switch kind {
	case "pad1":
		return d + "=", true
	case "pad2":
		return d + "==", true
	case "lf":
		return d[:len(d)/2] + "\n" + d[len(d)/2:], true
	case "cr":
		return d[:1] + "\r" + d[1:], true
	case "bits":
		// the last character of a 2- or 3-character tail carries 4 or 2 unused bits
		if len(d)%4 < 2 {
			return "", false
		}

		i := strings.IndexByte(b64url, d[len(d)-1])
		if i < 0 {
			return "", false
		}

		return d[:len(d)-1] + string(b64url[i^1]), true
	}

	return "", false
}

func (r *runner) play(sc *Scenario, is *issued, p *Play, dist []string) {
	o := &sc.Opts
	one := Scenario{Claims: sc.Claims, Opts: sc.Opts, Plays: []Play{*p}, Note: sc.Note}

	// the chosen disclosures
	var chosen []string

	selSet := map[string]bool{}

	for _, path := range p.Sel {
		if d, ok := is.bySite(path); ok {
			chosen = append(chosen, d)
			selSet[d] = true
		}
	}

	cfi := is.cfi
	expectReject := false
	crafted := false
	sigOK := true
	presented := append([]string{}, chosen...)
	selPaths := append([]string{}, p.Sel...)

	var hopts []holder.Option

	hbTerm := "None"

	if p.HB != "" {
		who := pHolder
		if p.HB == "attacker" {
			who = pAttacker
		}

		hbIat := time.Now()

		switch p.HBIat {
		case "future":
			hbIat = hbIat.Add(2 * time.Hour)
		case "past":
			hbIat = hbIat.Add(-2 * time.Hour)
		}

		info := &holder.BindingInfo{Payload: holder.BindingPayload{Nonce: p.HBNonce, Audience: p.HBAud, IssuedAt: jwt.NewNumericDate(hbIat)}, Signer: who.signer}
		if o.V5 {
			info.Headers = jose.Headers{jose.HeaderType: "kb+jwt"}
		}

		hopts = append(hopts, holder.WithHolderVerification(info))
		hbTerm = fmt.Sprintf("(Some {| hb_key := (%d)%%Z; hb_nonce := %s; hb_aud := %s; hb_ok := true; hb_iat := Some (%d)%%Z |})", who.sym, hx.CoqString(p.HBNonce),
			hx.CoqString(p.HBAud), hbIat.Unix())
	}

	pres, perr := holder.CreatePresentation(cfi, chosen, hopts...)
	if perr != nil {
		// nothing to present (an SD-JWT without disclosures): the holder hands over the SD-JWT itself
		pres = strings.Split(cfi, common.CombinedFormatSeparator)[0]
		if len(hopts) > 0 {
			return
		}
	}

	cfp := common.ParseCombinedFormatForPresentation(pres)
	if perr == nil {
		// what the holder really hands over (not what it was asked to)
		presented = append([]string{}, cfp.Disclosures...)
	}

	// --- attacks on the presentation (the attacker re-assembles the combined format)
	craft := func(arr ...interface{}) string { return reencode(arr, 0) }

	var victim *decoded

	var victimStr string

	if len(chosen) > 0 {
		vi := p.Victim
		if vi < 0 || vi >= len(chosen) {
			vi = len(chosen) - 1
		}

		victimStr = chosen[vi]
		victim = is.s.parsed[victimStr]
	}

	replaceVictim := func(with string) {
		for i, d := range presented {
			if d == victimStr {
				presented[i] = with
			}
		}
	}

	switch p.Attack {
	case "", "orphan":
	case "kb-reuse":
		// the binding JWT made for one presentation is put next to ANOTHER parent-closed choice of the holder's own
		// disclosures: the binding of this draft carries key, nonce, audience and iat, no hash of the disclosures
		// (sd_hash came with later drafts), so the verifier accepts it and outputs exactly the new choice
		if p.HB == "" {
			return
		}

		var other []string

		if len(chosen) == 0 {
			for _, d := range is.real() {
				if is.sites[d].parent == "" {
					other = append(other, d)
				}
			}
		}

		chosen, presented, selPaths = other, append([]string{}, other...), nil
		selSet = map[string]bool{}

		for _, d := range other {
			selSet[d] = true
			selPaths = append(selPaths, is.sites[d].path)
		}
	case "foreign":
		other, st, _ := doIssue(is.claims, o, pIssuer.signer)
		if st != 0 || len(other.real()) == 0 {
			return
		}

		presented = append(presented, other.real()[0])
	case "foreign-crafted":
		presented = append(presented, craft("c2FsdA", "zz", "forged"))
	case "duplicate":
		if victim == nil {
			return
		}

		presented = append(presented, victimStr)
	case "alter-value", "alter-name", "alter-salt", "reencode", "arity4", "as-element":
		if victim == nil || victim.e < 2 {
			return
		}

		var arr []interface{}
		if victim.e == 2 {
			arr = []interface{}{victim.salt, victim.val}
		} else {
			arr = []interface{}{victim.salt, victim.name, victim.val}
		}

		switch p.Attack {
		case "alter-value":
			arr[len(arr)-1] = "forged"
			replaceVictim(reencode(arr, 0))
		case "alter-name":
			if victim.e != 3 {
				return
			}

			arr[1] = victim.name + "x"
			replaceVictim(reencode(arr, 0))
		case "alter-salt":
			arr[0] = victim.salt + "A"
			replaceVictim(reencode(arr, 0))
		case "reencode":
			replaceVictim(reencode(arr, 1))
		case "arity4":
			replaceVictim(reencode(append(arr, "extra"), 0))
		case "as-element":
			if victim.e != 3 {
				return
			}

			replaceVictim(reencode([]interface{}{victim.salt, victim.val}, 0))
		}
	case "pad1", "pad2", "bits", "lf", "cr", "pad1+", "pad2+", "bits+", "lf+", "cr+":
		// another text of the SAME disclosure (alone = altered string, with "+" next to the original = duplicated):
		// base64 padding, non-zero trailing bits, embedded LF / CR (Go's decoder skips them)
		if victim == nil {
			return
		}

		variant, ok := textVariant(victimStr, strings.TrimSuffix(p.Attack, "+"))
		if !ok {
			return
		}

		if strings.HasSuffix(p.Attack, "+") {
			presented = append(presented, variant)
		} else {
			replaceVictim(variant)
		}
	case "dup-digest":
		// a dishonest issuer places the digest of a disclosure twice in the payload it signs
		if victim == nil {
			return
		}

		mod, _ := plain(is.payload).(map[string]interface{})
		if victim.e == 2 {
			// (an element disclosure under "_sd" would race, in Go's random member order, between "more than one place"
			// and the arity error: keep the class of the first error determined)
			mod["zy"] = []interface{}{"first", map[string]interface{}{common.ArrayElementDigestKey: hashOf(o.Alg, victimStr)}}
		} else {
			mod["zz"] = map[string]interface{}{common.SDKey: []interface{}{hashOf(o.Alg, victimStr)}}
		}

		ser, ok := signPayload(mod)
		if !ok {
			return
		}

		is2 := *is
		is2.payload = mod
		is = &is2
		cfp.SDJWT = ser
	case "iss-elem-in-sd", "iss-sd-in-array", "iss-clash", "iss-clash-sd", "iss-dots-nonstring", "iss-sd-nonlist", "iss-sd-nonstring-item",
		"iss-extra-ok", "iss-extra-elem-ok", "iss-extra-nested-ok":
		// a dishonest (or careless) issuer signs a payload of its own making: exactly one defect is planted per play, so
		// that the class of the first error does not depend on Go's random order over map members
		mod, _ := plain(is.payload).(map[string]interface{})
		h := func(d string) string { return hashOf(o.Alg, d) }
		dots := common.ArrayElementDigestKey

		switch p.Attack {
		case "iss-elem-in-sd": // a two-element disclosure behind an "_sd" digest
			x := craft("c2FsdDI", "elemval")
			mod["zz"] = map[string]interface{}{common.SDKey: []interface{}{h(x)}}
			presented = append(presented, x)
		case "iss-sd-in-array": // a three-element disclosure behind an array element digest
			x := craft("c2FsdDM", "nm", "sdval")
			mod["zy"] = []interface{}{"first", map[string]interface{}{dots: h(x)}}
			presented = append(presented, x)
		case "iss-clash": // a disclosed member whose name the object already has
			x := craft("c2FsdDQ", "twice", "forged")
			mod["zz"] = map[string]interface{}{"twice": "plainval", common.SDKey: []interface{}{h(x)}}
			presented = append(presented, x)
		case "iss-clash-sd": // two disclosed members of one name in one "_sd" list
			x, y := craft("c2FsdDQ", "twice", "one"), craft("c2FsdDU", "twice", "two")
			mod["zz"] = map[string]interface{}{common.SDKey: []interface{}{h(x), h(y)}}
			presented = append(presented, x, y)
		case "iss-dots-nonstring":
			mod["zy"] = []interface{}{map[string]interface{}{dots: float64(5)}}
		case "iss-sd-nonlist":
			mod["zz"] = map[string]interface{}{common.SDKey: "nolist"}
		case "iss-sd-nonstring-item":
			mod["zz"] = map[string]interface{}{common.SDKey: []interface{}{float64(1)}}
		case "iss-extra-ok": // consistent: accepted, and the member appears
			x := craft("c2FsdDY", "nm", "okval")
			mod["zz"] = map[string]interface{}{"other": "plainval", common.SDKey: []interface{}{h(x)}}
			presented = append(presented, x)
		case "iss-extra-elem-ok":
			x := craft("c2FsdDc", "elemok")
			mod["zy"] = []interface{}{"first", map[string]interface{}{dots: h(x)}, map[string]interface{}{dots: h("absent")}}
			presented = append(presented, x)
		case "iss-extra-nested-ok": // four levels: member -> object with _sd -> array with element digest -> object with _sd
			d4 := craft("c2FsdDg", "deep", "v4")
			d3 := craft("c2FsdDk", map[string]interface{}{"k3": "v3", common.SDKey: []interface{}{h(d4)}})
			d2 := craft("c2FsdDEw", "arr", []interface{}{"e0", map[string]interface{}{dots: h(d3)}})
			d1 := craft("c2FsdDEx", "top", map[string]interface{}{"k1": "v1", common.SDKey: []interface{}{h(d2)}})
			mod["zz"] = map[string]interface{}{common.SDKey: []interface{}{h(d1)}}
			presented = append(presented, d4, d1, d3, d2)
		}

		ser, ok := signPayload(mod)
		if !ok {
			return
		}

		is2 := *is
		is2.payload = mod
		is = &is2
		cfp.SDJWT = ser
		crafted = true
	case "arity1":
		presented = append(presented, craft("c2FsdA"))
	case "garbage":
		presented = append(presented, "bm90IGpzb24")
	case "bad-issuer-sig":
		forged, st, _ := doIssue(is.claims, o, pAttacker.signer)
		if st != 0 {
			return
		}

		// the attacker's own SD-JWT with its own disclosures, shown to a verifier that trusts the issuer's key
		is = forged
		presented = nil
		chosen = nil
		selSet = map[string]bool{}
		sigOK = false
		cfp.SDJWT = strings.Split(forged.cfi, common.CombinedFormatSeparator)[0]
	default:
		return
	}

	if p.Attack != "" && p.Attack != "kb-reuse" && !strings.HasSuffix(p.Attack, "-ok") {
		expectReject = true
	}

	for _, d := range presented {
		is.s.know(d)
	}

	cf := common.CombinedFormatForPresentation{SDJWT: cfp.SDJWT, Disclosures: presented, HolderVerification: cfp.HolderVerification}
	wire := cf.Serialize()

	vopts := []verifier.ParseOpt{verifier.WithSignatureVerifier(pIssuer.ver), verifier.WithHolderVerificationRequired(p.Required)}
	if p.VNonce != "" {
		vopts = append(vopts, verifier.WithExpectedNonceForHolderVerification(p.VNonce))
	}

	if p.VAud != "" {
		vopts = append(vopts, verifier.WithExpectedAudienceForHolderVerification(p.VAud))
	}

	switch o.IssTime {
	case "expired", "notyet", "futureiat":
		expectReject = true
	}

	// holder binding expectations
	hbLabel := "hb-none"

	switch {
	case p.HB == "" && p.Required:
		expectReject = true
		hbLabel = "hb-missing-required"
	case p.HB != "":
		hbLabel = "hb-ok"

		if !o.Cnf {
			expectReject = true
			hbLabel = "hb-without-cnf"
		}

		if p.HB == "attacker" {
			expectReject = true
			hbLabel = "hb-wrong-key"
		}

		if p.VNonce != "" && p.VNonce != p.HBNonce {
			expectReject = true
			hbLabel = "hb-wrong-nonce"
		}

		if p.VAud != "" && p.VAud != p.HBAud {
			expectReject = true
			hbLabel = "hb-wrong-aud"
		}

		if p.HBIat == "future" {
			expectReject = true
			hbLabel = "hb-iat-in-future"
		}
	}

	if o.IssTime != "" {
		hbLabel += "+iss-" + o.IssTime
	}

	var (
		out    map[string]interface{}
		verr   error
		vpanic interface{}
	)

	verifyNow := time.Now()

	func() {
		defer func() { vpanic = recover() }()

		out, verr = verifier.Parse(wire, vopts...)
	}()

	accepted := verr == nil && vpanic == nil
	outPlain, _ := plain(out).(map[string]interface{})

	label := p.Attack
	if label == "" {
		label = "honest"
	}

	class := fmt.Sprintf("verify|%s|%s|%s|vn=%v,va=%v,hn=%s,ha=%s,req=%v|n=%d|sel=%d|%v", strings.Join(dist, ","), label, hbLabel,
		p.VNonce != "", p.VAud != "", p.HBNonce, p.HBAud, p.Required, len(is.real()), len(chosen), accepted)
	rec := &hx.Record{Case: one, Class: class, Dist: append([]string{"verify", label, hbLabel}, dist...),
		Observed: map[string]interface{}{"accepted": accepted, "err": fmt.Sprint(verr), "out": outPlain}}

	outTerm := "VNull"
	if accepted {
		outTerm = is.s.val(outPlain, false)
	}

	ecls := errClass(verr)
	rec.Observed.(map[string]interface{})["errclass"] = ecls
	rec.Class += fmt.Sprintf("|e%d", ecls)
	rec.Coq = fmt.Sprintf("CVerifyW {| vo_required := %s; vo_nonce := %s; vo_aud := %s; vo_now := (%d)%%Z; vo_leeway := 60%%Z |} {| p_sig_ok := %s; p_payload := %s; p_discs := %s; p_hb := %s |} %s %s %d%%N",
		hx.CoqBool(p.Required), hx.CoqString(p.VNonce), hx.CoqString(p.VAud), verifyNow.Unix(), hx.CoqBool(sigOK), is.s.val(is.payload, false), is.s.discs(presented), hbTerm,
		hx.CoqBool(accepted), outTerm, ecls)

	switch {
	case vpanic != nil:
		rec.Oracle, rec.Sig, rec.Detail = "fail", "verifier-panic", fmt.Sprint(vpanic)
	case expectReject && accepted:
		rec.Oracle, rec.Sig = "fail", "accepted:"+label+":"+hbLabel
		rec.Detail = "the verifier accepted a presentation it must reject (" + label + ", " + hbLabel + ")"
	case !expectReject && !accepted:
		rec.Oracle, rec.Sig = "fail", "honest-rejected:"+hbLabel
		rec.Detail = "the verifier rejected an honest presentation: " + fmt.Sprint(verr)
	}

	r.put(rec)

	if expectReject || !accepted || crafted {
		return
	}

	// --- honest and accepted: output = always-visible + chosen, with the issued values; nothing else revealed
	hidden := map[string]bool{}

	for d, s := range is.sites {
		if !selSet[d] {
			hidden[s.path] = true
		}
	}

	expObj, _ := prune(plain(is.claims), nil, hidden)
	expected, _ := expObj.(map[string]interface{})
	expected["iss"] = "iss"

	for _, k := range []string{"iat", "nbf", "exp"} {
		if v, ok := is.payload[k]; ok {
			expected[k] = plain(v)
		}
	}

	if o.Cnf {
		expected["cnf"] = map[string]interface{}{"jwk": plain(pHolder.jwk)}
	}

	rrec := &hx.Record{Case: one, Class: "reveal|" + class, Dist: append([]string{"reveal"}, dist...),
		Observed: map[string]interface{}{"out": outPlain, "expected": expected}}
	// the model's specification function against the oracle's independent expectation (claims minus undisclosed sites)
	if o.IssTime == "" {
		rrec.Coq = fmt.Sprintf("CReveal %s %s %s %s", o.coq(pHolder.sym), newSym(o.Alg).members(is.claims), coqPaths(selPaths), is.s.val(expected, false))
	}

	if !reflect.DeepEqual(expected, outPlain) {
		rrec.Oracle = "fail"
		rrec.Detail = "verifier output " + jsonOf(outPlain) + " differs from visible+chosen " + jsonOf(expected)

		switch {
		case !reflect.DeepEqual(quirk(expected, false), quirk(outPlain, false)):
			rrec.Sig = "output-not-visible-plus-chosen"
		case hasNullOrEmpty(plain(is.claims)):
			rrec.Sig = "null-or-empty-array-claim-not-preserved"
		default:
			rrec.Sig = "array-without-disclosed-element-collapses"
		}
	}

	// hiding: no leaf of an undisclosed claim occurs in what the verifier is shown
	if rrec.Oracle != "fail" || rrec.Sig != "output-not-visible-plus-chosen" {
		shown := jsonOf(is.payload)

		for _, d := range presented {
			raw, _ := base64.RawURLEncoding.DecodeString(d)
			shown += " " + string(raw)
		}

		var visibleTokens []string

		visTree, _ := prune(plain(is.claims), nil, hidden)
		leafTokens(visTree, &visibleTokens)
		vis := map[string]bool{}

		for _, t := range visibleTokens {
			vis[t] = true
		}

		var all []string

		leafTokens(plain(is.claims), &all)

		for _, t := range all {
			if !vis[t] && strings.Contains(shown, t) {
				rrec.Oracle, rrec.Sig = "fail", "undisclosed-value-shown"
				rrec.Detail = "the presentation contains the undisclosed value " + t
			}
		}
	}

	r.put(rrec)
}

// ---------- the credential level: Credential.MakeSDJWT -> holder -> verifier.Parse, and
// ParseCredential -> CreateDisplayCredentialMap (direct oracle only) ----------

func removeEmptyObjects(v interface{}) interface{} {
	switch t := v.(type) {
	case map[string]interface{}:
		m := map[string]interface{}{}

		for k, x := range t {
			y := removeEmptyObjects(x)
			if ym, ok := y.(map[string]interface{}); ok && len(ym) == 0 {
				continue
			}

			m[k] = y
		}

		return m
	}

	return v
}

func (r *runner) runVC(g *gen, v5 bool, alg int) {
	subject := g.object(2, 3, false)
	subject = stripNulls(subject).(map[string]interface{})
	delete(subject, "id")
	r.runVCSubject(g, subject, v5, alg)
}

func (r *runner) runVCSubject(g *gen, subject map[string]interface{}, v5 bool, alg int) {

	subjJSON := map[string]interface{}{"id": "did:example:holder"}
	for k, x := range subject {
		subjJSON[k] = x
	}

	credJSON := map[string]interface{}{
		"@context":          []interface{}{"https://www.w3.org/2018/credentials/v1"},
		"id":                "http://example.edu/credentials/1872",
		"type":              []interface{}{"VerifiableCredential"},
		"issuer":            map[string]interface{}{"id": "did:example:issuer"},
		"issuanceDate":      "2010-01-01T19:23:24Z",
		"credentialSubject": subjJSON,
	}

	sc := map[string]interface{}{"level": "vc", "v5": v5, "alg": alg, "subject": subject}
	dist := []string{"vc-level", map[bool]string{true: "v5", false: "v2"}[v5], fmt.Sprintf("sha-%d", alg)}
	fail := func(sig, detail string) {
		r.put(&hx.Record{Case: sc, Class: "vc|" + sig, Dist: dist, Oracle: "fail", Sig: sig, Detail: detail})
	}

	cred, err := verifiable.ParseCredential([]byte(jsonOf(credJSON)), verifiable.WithDisabledProofCheck(), verifiable.WithCredDisableValidation())
	if err != nil {
		return
	}

	h := crypto.SHA256

	switch alg {
	case 384:
		h = crypto.SHA384
	case 512:
		h = crypto.SHA512
	}

	ver := common.SDJWTVersionV2
	if v5 {
		ver = common.SDJWTVersionV5
	}

	var cfi string

	func() {
		defer func() {
			if rec := recover(); rec != nil {
				err = fmt.Errorf("panic: %v", rec)
			}
		}()

		cfi, err = cred.MakeSDJWT(pIssuer.signer, "did:example:issuer#key-1", verifiable.MakeSDJWTWithVersion(ver), verifiable.MakeSDJWTWithHash(h))
	}()

	if err != nil {
		fail("vc-make-sdjwt-failed", err.Error())
		return
	}

	// the issued structure
	seg := strings.Split(strings.Split(cfi, common.CombinedFormatSeparator)[0], ".")
	pb, _ := base64.RawURLEncoding.DecodeString(seg[1])

	var payload map[string]interface{}
	if json.Unmarshal(pb, &payload) != nil {
		return
	}

	vcObj := payload
	if inner, ok := payload["vc"].(map[string]interface{}); ok {
		vcObj = inner
	}

	cs, _ := vcObj["credentialSubject"].(map[string]interface{})
	s := newSym(alg)
	discs := common.ParseCombinedFormatForIssuance(cfi).Disclosures

	for _, d := range discs {
		s.know(d)
	}

	sites := locate(cs, s)

	// the issuance through the model: subject, the other members of the JWT payload and of the credential
	without := func(m map[string]interface{}, keys ...string) map[string]interface{} {
		c := map[string]interface{}{}
		for k, x := range m {
			c[k] = x
		}

		for _, k := range keys {
			delete(c, k)
		}

		return c
	}

	oTerm := fmt.Sprintf("{| o_v5 := %s; o_alg := %d%%N; o_structured := true; o_decoys := 0%%nat; o_nonsd := [[SKey \"id\"]]; o_always := []; o_recursive := []; o_iss := \"\"; o_cnf := None |}",
		hx.CoqBool(v5), alg)
	outerT, vcmT := "", "[]"

	if _, wrapped := payload["vc"].(map[string]interface{}); wrapped {
		outerT = s.members(without(payload, "vc"))
		vcmT = s.members(without(vcObj, "credentialSubject", common.SDAlgorithmKey))
	} else {
		outerT = s.members(without(payload, "credentialSubject", common.SDAlgorithmKey))
	}

	r.put(&hx.Record{Case: sc, Class: fmt.Sprintf("vc|issue|%v|%d", v5, alg), Dist: append([]string{"vc-issue"}, dist...),
		Coq:      fmt.Sprintf("CIssueVC %s %s %s %s %s %s", oTerm, newSym(alg).members(plain(subjJSON).(map[string]interface{})), outerT, vcmT, s.val(payload, false), s.discs(discs)),
		Observed: map[string]interface{}{"payload": payload, "disclosures": len(discs)}})

	var real []string

	for _, d := range discs {
		if _, ok := sites[d]; ok {
			real = append(real, d)
		}
	}

	sort.Slice(real, func(i, j int) bool { return sites[real[i]].path < sites[real[j]].path })

	// --- through the holder and the verifier: a few parent-closed selections
	for k := 0; k < 4; k++ {
		var chosen []string

		in := map[string]bool{}

		for _, d := range real {
			par := sites[d].parent
			if (par == "" || in[par]) && (k == 0 || g.r.Intn(2) > 0) {
				in[d] = true
				chosen = append(chosen, d)
			}
		}

		pres, perr := holder.CreatePresentation(cfi, chosen)
		if perr != nil {
			pres = strings.Split(cfi, common.CombinedFormatSeparator)[0]
		}

		shown := common.ParseCombinedFormatForPresentation(pres).Disclosures
		vnow := time.Now()
		out, verr := verifier.Parse(pres, verifier.WithSignatureVerifier(pIssuer.ver))
		if verr != nil {
			fail("vc-honest-rejected", verr.Error())
			continue
		}

		outVC, _ := plain(out).(map[string]interface{})
		if inner, ok := outVC["vc"].(map[string]interface{}); ok {
			outVC = inner
		}

		got, _ := outVC["credentialSubject"].(map[string]interface{})
		hidden := map[string]bool{}

		for d, st := range sites {
			if !in[d] {
				hidden[st.path] = true
			}
		}

		expObj, _ := prune(plain(subjJSON), nil, hidden)
		rec := &hx.Record{Case: sc, Class: fmt.Sprintf("vc|verify|%v|n=%d|sel=%d", v5, len(real), len(chosen)), Dist: append([]string{"vc-verify"}, dist...),
			Observed: map[string]interface{}{"subject": got, "expected": expObj}}
		// the whole VC-form payload (v2: _sd_alg and the digests inside the "vc" claim) through the model's verifier
		rec.Coq = fmt.Sprintf("CVerify {| vo_required := false; vo_nonce := \"\"; vo_aud := \"\"; vo_now := (%d)%%Z; vo_leeway := 60%%Z |} {| p_sig_ok := true; p_payload := %s; p_discs := %s; p_hb := None |} true %s",
			vnow.Unix(), s.val(payload, false), s.discs(shown), s.val(plain(out), false))

		if !reflect.DeepEqual(expObj, interface{}(got)) {
			rec.Oracle = "fail"
			rec.Detail = "credentialSubject " + jsonOf(got) + " differs from visible+chosen " + jsonOf(expObj)

			if reflect.DeepEqual(quirk(expObj, false), quirk(got, false)) {
				rec.Sig = "array-without-disclosed-element-collapses"
			} else {
				rec.Sig = "vc-output-not-visible-plus-chosen"
			}
		}

		r.put(rec)
	}

	// --- ParseCredential + CreateDisplayCredentialMap: all, and (v2: disclosures carry their member names) by name
	parsed, err := verifiable.ParseCredential([]byte(cfi), verifiable.WithPublicKeyFetcher(verifiable.SingleKey(pIssuer.pub, "Ed25519")),
		verifiable.WithCredDisableValidation())
	if err != nil {
		fail("vc-parse-sdjwt-failed", err.Error())
		return
	}

	names := map[string]bool{}
	for _, d := range real {
		names[s.parsed[d].name] = true
	}

	var nameList []string
	for n := range names {
		nameList = append(nameList, n)
	}

	sort.Strings(nameList)

	for k := 0; k < 3; k++ {
		var given []string

		var opt verifiable.DisplayCredentialOption

		if k == 0 {
			opt = verifiable.DisplayAllDisclosures()
			given = nameList
		} else {
			for _, n := range nameList {
				if g.r.Bool() {
					given = append(given, n)
				}
			}

			opt = verifiable.DisplayGivenDisclosures(given)
		}

		inName := map[string]bool{}
		for _, n := range given {
			inName[n] = true
		}

		disp, derr := parsed.CreateDisplayCredentialMap(opt)
		if derr != nil {
			fail("vc-display-failed", derr.Error())
			continue
		}

		got, _ := plain(disp["credentialSubject"]).(map[string]interface{})

		// a disclosure is shown iff its name is given and so are the names of all its ancestors
		shown := map[string]bool{}

		for _, d := range real {
			par := sites[d].parent
			if inName[s.parsed[d].name] && (par == "" || shown[par]) {
				shown[d] = true
			}
		}

		hidden := map[string]bool{}

		for d, st := range sites {
			if !shown[d] {
				hidden[st.path] = true
			}
		}

		expObj, _ := prune(plain(subjJSON), nil, hidden)
		expObj = removeEmptyObjects(expObj) // CreateDisplayCredential clears empty objects of the subject
		rec := &hx.Record{Case: sc, Class: fmt.Sprintf("vc|display|%v|n=%d|given=%d", v5, len(real), len(given)), Dist: append([]string{"vc-display"}, dist...),
			Observed: map[string]interface{}{"subject": got, "expected": expObj, "given": given}}

		if got != nil {
			// filterDisclosureList: every disclosure carrying one of the given names (a name may occur at several sites)
			var used []string

			for _, d := range real {
				if inName[s.parsed[d].name] {
					used = append(used, d)
				}
			}

			rec.Coq = fmt.Sprintf("CDisplay %d%%N %s %s %s", alg, s.val(cs, false), s.discs(used), s.val(got, false))
		}

		if !reflect.DeepEqual(expObj, interface{}(got)) {
			rec.Oracle = "fail"
			rec.Detail = "display credentialSubject " + jsonOf(got) + " differs from visible+given " + jsonOf(expObj)

			if reflect.DeepEqual(removeEmptyObjects(quirk(expObj, false)), removeEmptyObjects(quirk(got, false))) {
				rec.Sig = "array-without-disclosed-element-collapses"
			} else {
				rec.Sig = "vc-display-not-visible-plus-given"
			}
		}

		r.put(rec)
	}
}

// ---------- generators ----------

type gen struct {
	r    *hx.Rng
	tok  int
	deep int // extra levels of nesting (recursive disclosures deeper than two, arrays of objects of arrays)
}

func (g *gen) leaf(allowNull bool) interface{} {
	g.tok++

	switch g.r.Intn(12) {
	case 0, 1, 2, 3, 4:
		return fmt.Sprintf("t%dq", g.tok)
	case 5, 6, 7:
		return float64(100000 + g.tok*7)
	case 8:
		return g.r.Bool()
	case 9:
		if allowNull {
			return nil
		}

		return fmt.Sprintf("t%dq", g.tok)
	case 10:
		if allowNull {
			return []interface{}{}
		}

		return float64(100000 + g.tok*7)
	default:
		return fmt.Sprintf("t%dq", g.tok)
	}
}

var keyNames = []string{"a", "b", "c", "d", "e", "f", "g"}

func (g *gen) object(depth, width int, allowNull bool) map[string]interface{} {
	m := map[string]interface{}{}
	n := 1 + g.r.Intn(width)
	perm := g.r.Intn(len(keyNames))

	for i := 0; i < n; i++ {
		m[keyNames[(perm+i)%len(keyNames)]] = g.value(depth, width, allowNull)
	}

	return m
}

func (g *gen) value(depth, width int, allowNull bool) interface{} {
	if depth <= 0 {
		return g.leaf(allowNull)
	}

	switch g.r.Intn(10) {
	case 0, 1, 2:
		return g.object(depth-1, width, allowNull)
	case 3, 4:
		n := 1 + g.r.Intn(3)
		l := make([]interface{}, n)

		for i := range l {
			if g.r.Intn(4) == 0 || (g.deep > 0 && g.r.Intn(2) == 0) {
				l[i] = g.value(depth-1, 2, allowNull)
			} else {
				l[i] = g.leaf(false)
			}
		}

		return l
	default:
		return g.leaf(allowNull)
	}
}

func allPaths(v interface{}, p []pstep, objs, arrs, elems, leaves *[]string) {
	switch t := v.(type) {
	case map[string]interface{}:
		if len(p) > 0 {
			*objs = append(*objs, repoPath(p))
		}

		for k, x := range t {
			allPaths(x, append(append([]pstep{}, p...), pstep{key: k, idx: -1}), objs, arrs, elems, leaves)
		}
	case []interface{}:
		*arrs = append(*arrs, repoPath(p))

		for i := range t {
			*elems = append(*elems, repoPath(append(append([]pstep{}, p...), pstep{idx: i})))
		}
	default:
		*leaves = append(*leaves, repoPath(p))
	}
}

func pick(r *hx.Rng, l []string, prob int) []string {
	var out []string

	sort.Strings(l)

	for _, s := range l {
		if r.Intn(100) < prob {
			out = append(out, s)
		}
	}

	return out
}

func (g *gen) scenario(nullsOK bool) *Scenario {
	r := g.r
	o := Opts{V5: r.Bool(), Alg: []int{256, 384, 512}[r.Intn(3)], Structured: r.Bool(), Decoys: r.Intn(4) == 0, Cnf: r.Intn(3) == 0}
	allowNull := nullsOK && !o.V5 && r.Intn(3) == 0
	allowEmpty := nullsOK && r.Intn(4) == 0
	claims := g.object(2+g.deep, 3, allowNull || allowEmpty)

	if o.V5 && !allowNull {
		claims = stripNulls(claims).(map[string]interface{})
	}

	var objs, arrs, elems, leaves []string

	allPaths(claims, nil, &objs, &arrs, &elems, &leaves)

	o.NonSD = pick(r, append(append(append([]string{}, leaves...), elems...), append(objs, arrs...)...), 15)

	if o.V5 {
		o.Always = pick(r, append(append([]string{}, objs...), arrs...), 25)
		o.Recursive = pick(r, objs, 30)
	}

	return &Scenario{Claims: jsonOf(claims), Opts: o}
}

func stripNulls(v interface{}) interface{} {
	switch t := v.(type) {
	case map[string]interface{}:
		for k, x := range t {
			if x == nil {
				t[k] = "wasnull"
			} else {
				t[k] = stripNulls(x)
			}
		}
	case []interface{}:
		for i, x := range t {
			if x == nil {
				t[i] = "wasnull"
			} else {
				t[i] = stripNulls(x)
			}
		}
	}

	return v
}

var attacks = []string{"foreign", "foreign-crafted", "duplicate", "alter-value", "alter-name", "alter-salt", "reencode", "arity4",
	"as-element", "arity1", "garbage", "bad-issuer-sig", "dup-digest",
	"iss-elem-in-sd", "iss-sd-in-array", "iss-clash", "iss-clash-sd", "iss-dots-nonstring", "iss-sd-nonlist", "iss-sd-nonstring-item",
	"iss-extra-ok", "iss-extra-elem-ok", "iss-extra-nested-ok"}

// hbPlays: {expected nonce set/unset} x {expected audience set/unset} x {binding nonce right/wrong/absent} x
// {binding audience right/wrong/absent}, required; plus not-required, attacker-key and missing-binding plays.
func hbPlays(sel []string) []Play {
	var out []Play

	for _, vn := range []string{"n1", ""} {
		for _, va := range []string{"aud1", ""} {
			for _, hn := range []string{"n1", "n2", ""} {
				for _, ha := range []string{"aud1", "aud2", ""} {
					out = append(out, Play{Sel: sel, Victim: -1, HB: "holder", HBNonce: hn, HBAud: ha, Required: true, VNonce: vn, VAud: va})
				}
			}
		}
	}

	out = append(out,
		Play{Sel: sel, Victim: -1, Required: true},
		Play{Sel: sel, Victim: -1, Required: true, VNonce: "n1", VAud: "aud1"},
		Play{Sel: sel, Victim: -1, HB: "holder", HBNonce: "n1", HBAud: "aud1", VNonce: "n1", VAud: "aud1"},
		Play{Sel: sel, Victim: -1, HB: "holder", HBNonce: "n1", HBAud: "aud2", VAud: "aud1"},
		Play{Sel: sel, Victim: -1, HB: "holder", HBNonce: "n2", HBAud: "aud1", VNonce: "n1"},
		Play{Sel: sel, Victim: -1, HB: "attacker", HBNonce: "n1", HBAud: "aud1", Required: true, VNonce: "n1", VAud: "aud1"},
		Play{Sel: sel, Victim: -1, HB: "attacker", HBNonce: "n1", HBAud: "aud1"},
		Play{Sel: sel, Victim: -1, HB: "holder", HBNonce: "n1", HBAud: "aud1", HBIat: "future", Required: true, VNonce: "n1", VAud: "aud1"},
		Play{Sel: sel, Victim: -1, HB: "holder", HBNonce: "n1", HBAud: "aud1", HBIat: "future"},
		Play{Sel: sel, Victim: -1, HB: "holder", HBNonce: "n1", HBAud: "aud1", HBIat: "past", Required: true, VNonce: "n1", VAud: "aud1"},
		Play{Sel: sel, Victim: -1, Attack: "kb-reuse", HB: "holder", HBNonce: "n1", HBAud: "aud1", Required: true, VNonce: "n1", VAud: "aud1"},
		Play{Sel: sel, Victim: -1, Attack: "kb-reuse", HB: "holder", HBNonce: "n2", HBAud: "aud1", Required: true, VNonce: "n1", VAud: "aud1"},
	)

	return out
}

func corpus(dir string, r *runner) {
	files, _ := filepath.Glob(filepath.Join(dir, "*.json"))
	sort.Strings(files)

	for _, f := range files {
		b, err := os.ReadFile(f)
		if err != nil {
			continue
		}

		var c struct {
			Case *Scenario `json:"case"`
		}

		if json.Unmarshal(b, &c) != nil || c.Case == nil {
			continue
		}

		r.run(c.Case)
	}
}

func main() {
	args := hx.ParseArgs()
	tr := hx.NewTrace(args.Out)

	defer tr.Close()

	pIssuer, pHolder, pAttacker = newParty("issuer", 0), newParty("holder", 1), newParty("attacker", 2)

	if args.Replay != "" {
		b, err := os.ReadFile(args.Replay)
		must(err)

		var c struct {
			Case *Scenario `json:"case"`
		}

		var vcc struct {
			Case struct {
				Level   string                 `json:"level"`
				V5      bool                   `json:"v5"`
				Alg     int                    `json:"alg"`
				Subject map[string]interface{} `json:"subject"`
			} `json:"case"`
		}

		if json.Unmarshal(b, &vcc) == nil && vcc.Case.Level == "vc" {
			(&runner{tr: tr, kind: "replay", coq: false}).runVCSubject(&gen{r: hx.NewRng(args.Seed)}, vcc.Case.Subject, vcc.Case.V5, vcc.Case.Alg)
			return
		}

		must(json.Unmarshal(b, &c))

		if c.Case != nil {
			(&runner{tr: tr, kind: "replay", coq: true}).run(c.Case)
		}

		return
	}

	corpus(args.Extra, &runner{tr: tr, kind: "corpus", coq: true})

	rng := hx.NewRng(args.Seed)
	thorough := args.Tier == "thorough"

	nExh, nAtt, nRand := 120, 130, 300
	if thorough {
		nExh, nAtt, nRand = 400, 400, 2500
	}

	// 1. every subset (parent-closed = honest, the others = orphan attack) of up to 6 issued disclosures
	for i := 0; i < nExh; i++ {
		g := &gen{r: rng.Fork(uint64(i))}
		if i%6 == 5 {
			g.deep = 1
		}

		sc := g.scenario(i%5 == 4)
		sc.AllSubsets = true
		(&runner{tr: tr, kind: "exhaustive", coq: true}).run(sc)
	}

	// 2. attacks and holder binding on a random selection
	for i := 0; i < nAtt; i++ {
		g := &gen{r: rng.Fork(uint64(100000 + i))}
		if i%4 == 1 {
			g.deep = 1 + i%3
		}

		sc := g.scenario(false)
		sc.Opts.Decoys = sc.Opts.Decoys && !sc.Opts.V5
		sc.Opts.Cnf = i%4 != 3
		sc.Opts.IssTime = []string{"", "", "valid", "", "expired", "", "notyet", "", "futureiat", "valid"}[i%10]

		var claims map[string]interface{}

		must(json.Unmarshal([]byte(sc.Claims), &claims))

		is, st, _ := doIssue(claims, &sc.Opts, pIssuer.signer)
		if st != 0 {
			continue
		}

		// a parent-closed random selection with at least one disclosure when there is one
		var sel []string

		in := map[string]bool{}

		for _, d := range is.real() {
			par := is.sites[d].parent
			if (par == "" || in[par]) && g.r.Intn(3) > 0 {
				in[d] = true
				sel = append(sel, is.sites[d].path)
			}
		}

		for _, a := range attacks {
			sc.Plays = append(sc.Plays, Play{Sel: sel, Attack: a, Victim: -1})
		}

		// another text of the same disclosure, for every chosen disclosure (alone and next to the original)
		for vi := 0; vi < len(sel) && vi < 4; vi++ {
			for _, a := range []string{"pad1", "pad2", "bits", "lf", "cr", "pad1+", "pad2+", "bits+", "lf+", "cr+"} {
				sc.Plays = append(sc.Plays, Play{Sel: sel, Attack: a, Victim: vi})
			}
		}

		sc.Plays = append(sc.Plays, hbPlays(sel)...)
		(&runner{tr: tr, kind: "attack", coq: true}).run(sc)
	}

	// 2b. the v5 issuer on a JSON null claim (reflect.TypeOf(nil).Kind()): an observation about local input, the model
	// predicts the panic; 2c. the credential level
	for i := 0; i < 6; i++ {
		g := &gen{r: rng.Fork(uint64(150000 + i))}
		sc := g.scenario(false)
		sc.Opts.V5 = true

		var claims map[string]interface{}

		must(json.Unmarshal([]byte(sc.Claims), &claims))
		claims[keyNames[g.r.Intn(len(keyNames))]+"n"] = nil

		if i%2 == 1 {
			claims["wrap"] = map[string]interface{}{"inner": nil, "x": "y"}
		}

		sc.Claims = jsonOf(claims)
		sc.Note = "v5 issuer, null claim"
		(&runner{tr: tr, kind: "issuer-null", coq: true}).run(sc)
	}

	nVC := 40
	if thorough {
		nVC = 400
	}

	for i := 0; i < nVC; i++ {
		g := &gen{r: rng.Fork(uint64(170000 + i))}
		(&runner{tr: tr, kind: "vc", coq: true}).runVC(g, i%2 == 1, []int{256, 384, 512}[i%3])
	}

	// 3. larger random trees, random parent-closed selections (direct oracle; every 3rd through Coq)
	for i := 0; i < nRand; i++ {
		g := &gen{r: rng.Fork(uint64(200000 + i))}
		if i%3 != 1 {
			g.deep = 1 + i%2
		}

		sc := g.scenario(i%7 == 6)

		var claims map[string]interface{}

		must(json.Unmarshal([]byte(sc.Claims), &claims))

		if sc.Opts.V5 && sc.Opts.Decoys {
			sc.Opts.Decoys = false
		}

		is, st, _ := doIssue(claims, &sc.Opts, pIssuer.signer)
		if st != 0 {
			continue
		}

		for k := 0; k < 3; k++ {
			var sel []string

			in := map[string]bool{}

			for _, d := range is.real() {
				par := is.sites[d].parent
				if (par == "" || in[par]) && g.r.Intn(2) > 0 {
					in[d] = true
					sel = append(sel, is.sites[d].path)
				}
			}

			sc.Plays = append(sc.Plays, Play{Sel: sel, Victim: -1})
		}

		(&runner{tr: tr, kind: "random", coq: i%3 == 0}).run(sc)
	}
}
