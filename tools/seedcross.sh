#!/bin/bash
# usage: seedcross.sh seeded/<name> <OtherProp> : run another property's quick check against a seeded change
cd /verif; D=${1%/}; P=$2; NAME=$(basename $D)
WT=$(mktemp -d /tmp/seedx-$NAME-XXXX); rmdir $WT
git -C /repo worktree add --detach $WT HEAD >/dev/null 2>&1 || exit 2
trap 'git -C /repo worktree remove --force "$WT" >/dev/null 2>&1; rm -rf "$WT"' EXIT
git -C $WT apply $PWD/$D/patch.diff || { echo "patch does not apply"; exit 2; }
export GOFLAGS=-mod=mod GOPROXY=off GOSUMDB=off GOTOOLCHAIN=local
VERIF_REPO=$WT bin/check $P --tier quick > run/seedx-$NAME-$P.log 2>&1; RC=$?
echo "$NAME by $P: rc=$RC $(grep -c '^VIOLATION' run/seedx-$NAME-$P.log) violation lines; $(grep '^VIOLATION' run/seedx-$NAME-$P.log | head -2 | cut -c1-150)"
for g in coq/gen/Gen_${P}*.v; do [ -f "$g" ] && git ls-files --error-unmatch "$g" >/dev/null 2>&1 && git checkout -- "$g"; done
