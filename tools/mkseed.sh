#!/bin/bash
# usage: mkseed.sh Cxx N  -> creates worktree /tmp/seedwt-Cxx and writes /verif/run/seed_Cxx.txt
ID=$1; N=${2:-2}; WT=/tmp/seedwt-$ID
git -C /repo worktree add --detach $WT HEAD >/dev/null 2>&1 || { echo "worktree exists?"; }
mkdir -p /tmp/$ID-out
python3 - "$ID" "$N" "$WT" <<'PY'
import json,sys
ID,N,WT=sys.argv[1:4]
prop=[json.loads(l) for l in open('/verif/properties.jsonl') if json.loads(l)['id']==ID][0]
t=open('/verif/run/seed_prompt.txt').read()
t=t.replace('@@WT@@/../@@ID@@-out','/tmp/'+ID+'-out').replace('@@WT@@',WT).replace('@@ID@@',ID).replace('@@N@@',N).replace('@@PROPERTY@@',json.dumps(prop,indent=1))
open('/verif/run/seed_%s.txt'%ID,'w').write(t); open('/tmp/%s-out/TASK.txt'%ID,'w').write(t)
print(len(t))
PY
