#!/usr/bin/env python3
"""Re-assemble DESIGN.md section 20 from notes/wave5/{intro,Cxx,validation}.md (idempotent)."""
import re,os
D='/verif/DESIGN.md'; t=open(D).read()
marker='---------------------------------------------------------------------------------------------\n\n## Appendix A'
i=t.index('## 20. Wave 5'); j=t.index(marker)
out=open('/verif/notes/wave5/intro.md').read()
for n in range(1,21):
    p='C%02d'%n; f='/verif/notes/wave5/%s.md'%p
    s=open(f).read().strip() if os.path.exists(f) else '(no notes)'
    s=re.sub(r'^(#+)\s*(.*)$',lambda m:'**'+m.group(2)+'**',s,flags=re.M)
    out+='### 20.%d %s\n\n%s\n\n'%(n,p,s)
out+='### 20.21 Validation of the wave-5 state (lead)\n\n'+open('/verif/notes/wave5/validation.md').read().strip()+'\n\n'
open(D,'w').write(t[:i]+out+t[j:])
print('section 20:',len(out.splitlines()),'lines')
