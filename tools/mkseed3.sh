#!/bin/bash
# usage: mkseed3.sh Cxx N -> round 3: worktree /tmp/seedwt-Cxxc, task /tmp/Cxxc-out/TASK.txt (outputs numbered 7..)
ID=$1; N=${2:-3}; WT=/tmp/seedwt-${ID}c
git -C /repo worktree add --detach $WT HEAD >/dev/null 2>&1 || echo "worktree exists?"
mkdir -p /tmp/${ID}c-out
python3 - "$ID" "$N" "$WT" <<'PY'
import json,sys
ID,N,WT=sys.argv[1:4]
prop=[json.loads(l) for l in open('/verif/properties.jsonl') if json.loads(l)['id']==ID][0]
t=open('/verif/run/seed_prompt.txt').read()
t=t.replace('@@WT@@/../@@ID@@-out','/tmp/'+ID+'c-out').replace('@@WT@@',WT).replace('/tmp/@@ID@@-scratch','/tmp/'+ID+'c-scratch').replace('@@ID@@',ID).replace('@@N@@',N).replace('@@PROPERTY@@',json.dumps(prop,indent=1))
t=t.replace('for i = 1..'+N,'for i = 7..'+str(6+int(N))).replace('<i>/','<i>/  (number them 7, 8, 9 …)')
t+='''

This is a THIRD round: other people already wrote changes for this property in the obvious places and in most of the anchored functions. To be different, look for changes that only manifest
 (a) after a process restart / re-open over the same persisted store, or across two instances of a component in one process;
 (b) with non-default options or configurations the code supports (alternative key types, serialisations, protocol versions, media-type profiles, wrappers stacked in an unusual order);
 (c) on error / rollback paths after a partial failure (a later step fails after an earlier one took effect), or on retry / duplicate delivery;
 (d) with inputs at size or encoding boundaries (empty, single element, more than 255 or 65535 elements, non-ASCII, very long, values that look like the code's own internal formats);
 (e) through a public entry point other than the one the existing tests use for the same functionality (client / controller / command layer, alternative constructor, helper used by another package).
'''
open('/tmp/%sc-out/TASK.txt'%ID,'w').write(t)
print(ID, len(t))
PY
