#!/bin/bash
# usage: seedstream.sh <glob-suffix> P1 P2 ... : bin/seedrun for every seeded/<P>-<suffix> sequentially
cd /verif; SUF=$1; shift
for P in "$@"; do for d in seeded/$P-$SUF; do [ -d "$d" ] && bin/seedrun $d; done; done
echo "=== stream done: $*"
