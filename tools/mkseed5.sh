#!/bin/bash
# round 5: outputs numbered 13..; worktree /tmp/seedwt-Cxxe, task /tmp/Cxxe-out/TASK.txt
ID=$1; N=${2:-3}; WT=/tmp/seedwt-${ID}e
git -C /repo worktree add --detach $WT HEAD >/dev/null 2>&1 || echo "worktree exists?"
mkdir -p /tmp/${ID}e-out
python3 - "$ID" "$N" "$WT" <<'PY'
import json,sys
ID,N,WT=sys.argv[1:4]
prop=[json.loads(l) for l in open('/verif/properties.jsonl') if json.loads(l)['id']==ID][0]
t=open('/verif/run/seed_prompt.txt').read()
t=t.replace('@@WT@@/../@@ID@@-out','/tmp/'+ID+'e-out').replace('@@WT@@',WT).replace('/tmp/@@ID@@-scratch','/tmp/'+ID+'e-scratch').replace('@@ID@@',ID).replace('@@N@@',N).replace('@@PROPERTY@@',json.dumps(prop,indent=1))
t=t.replace('for i = 1..'+N,'for i = 13..'+str(12+int(N))).replace('<i>/','<i>/  (number them 13, 14, 15 …)')
t+='''

This is a FIFTH round: many people already wrote changes for this property (relaxed checks, dropped locks, stale caches, off-by-ones, wrong map keys, things lost on error paths, restart/re-open effects, boundary sizes, alternative entry points, caller/callee responsibility moves, changed defaults and fallback order, sharing by reference, arithmetic/encoding edges, map iteration order). To be different, look for:
 (a) effects that cross API kinds: an operation of one kind leaves state (an index entry, a cached object, a registered handler, a counter) that only a LATER operation of ANOTHER kind, or an operation on ANOTHER thread / connection / profile / store name, observes;
 (b) a check performed on one representation and the use made of another (parsed vs raw bytes, trimmed vs untrimmed, first vs last of duplicate JSON members, decoded vs re-encoded, Unicode escapes, a value validated before a defaulting/normalising step changes it);
 (c) paging / batching / chunking: behaviour that differs only when a result spans more than one page or batch, is exactly a multiple of the batch size, or when an iterator is abandoned half-way;
 (d) version / feature negotiation: the second or third protocol or data-model version the code supports (v2/v3 message families, alternative proof or key formats), where only one version's path is changed;
 (e) lifecycle edges: use after Close/Stop/Unregister, double registration, an entry deleted and re-created with the same id, expiry exactly at the boundary, clock going backwards;
 (f) a rarely-taken branch selected by an optional field being present-but-empty / null / zero, as opposed to absent.
Keep each change small and plausible; you have roughly 25 minutes, so deliver as soon as the three are verified.
'''
open('/tmp/%se-out/TASK.txt'%ID,'w').write(t)
print(ID, len(t))
PY
