#!/bin/bash
# re-run every filed seeded change against the current checks: one stream per property, sequential inside a stream
cd /verif
for p in C01 C02 C03 C04 C05 C06 C07 C08 C09 C10 C11 C12 C13 C14 C15 C16 C17 C18 C19 C20; do
  ( for d in $(ls -d seeded/$p-* | sort -V); do bin/seedrun $d; done > run/seedall-$p.log 2>&1 ) &
  # at most 7 properties at a time
  while [ $(jobs -r | wc -l) -ge 7 ]; do sleep 5; done
done
wait
echo ALLDONE
