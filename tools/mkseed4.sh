#!/bin/bash
# round 4: outputs numbered 10..; worktree /tmp/seedwt-Cxxd, task /tmp/Cxxd-out/TASK.txt
ID=$1; N=${2:-3}; WT=/tmp/seedwt-${ID}d
git -C /repo worktree add --detach $WT HEAD >/dev/null 2>&1 || echo "worktree exists?"
mkdir -p /tmp/${ID}d-out
python3 - "$ID" "$N" "$WT" <<'PY'
import json,sys
ID,N,WT=sys.argv[1:4]
prop=[json.loads(l) for l in open('/verif/properties.jsonl') if json.loads(l)['id']==ID][0]
t=open('/verif/run/seed_prompt.txt').read()
t=t.replace('@@WT@@/../@@ID@@-out','/tmp/'+ID+'d-out').replace('@@WT@@',WT).replace('/tmp/@@ID@@-scratch','/tmp/'+ID+'d-scratch').replace('@@ID@@',ID).replace('@@N@@',N).replace('@@PROPERTY@@',json.dumps(prop,indent=1))
t=t.replace('for i = 1..'+N,'for i = 10..'+str(9+int(N))).replace('<i>/','<i>/  (number them 10, 11, 12 …)')
t+='''

This is a FOURTH round: many people already wrote changes for this property (relaxed checks, dropped locks, caches that are not invalidated, off-by-ones, wrong keys in maps, things lost on error paths, restart/re-open effects, boundary sizes, alternative entry points). To be different, look for:
 (a) refactors that MOVE a responsibility between a caller and a callee (each now assumes the other does the check / the copy / the normalisation), or between two layers/packages;
 (b) changes of DEFAULTS or of the order in which options / fallbacks are tried, visible only for inputs where two alternatives are both possible;
 (c) data that is shared by reference where it used to be copied (or mutated in place), visible only on the second use or for the second consumer;
 (d) arithmetic / encoding edge cases: signed vs unsigned, truncation, time zones and sub-second times, Unicode normalisation and case folding, base64/base58/hex variants, leading zeros, sort order of strings vs numbers;
 (e) behaviour that depends on iteration order of Go maps or on which of several equally valid candidates is picked first.
Keep each change small and plausible; you have roughly 20 minutes, so deliver as soon as the three are verified.
'''
open('/tmp/%sd-out/TASK.txt'%ID,'w').write(t)
print(ID, len(t))
PY
