#!/bin/bash
# usage: seedbatch.sh Cxx  — confirm /tmp/Cxx-out/{1,2,3..} and run the check against each confirmed one
ID=$1; cd /verif
for d in /tmp/$ID-out/[0-9]*; do
  i=$(basename $d)
  echo "=== ${ID%[bcde]}-$i confirm"; bin/seedconfirm $d ${ID%[bcde]}-$i 2>&1 | tail -15
  if [ -d seeded/${ID%[bcde]}-$i ]; then echo "=== ${ID%[bcde]}-$i run"; bin/seedrun seeded/${ID%[bcde]}-$i; fi
done
git -C /repo worktree remove --force /tmp/seedwt-$ID 2>/dev/null
echo "=== done $ID"
