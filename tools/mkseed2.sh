#!/bin/bash
# usage: mkseed2.sh Cxx N "hint" -> worktree /tmp/seedwt-Cxxb, task /tmp/Cxxb-out/TASK.txt (round 2; outputs numbered 4..)
ID=$1; N=${2:-3}; HINT=$3; WT=/tmp/seedwt-${ID}b
git -C /repo worktree add --detach $WT HEAD >/dev/null 2>&1 || echo "worktree exists?"
mkdir -p /tmp/${ID}b-out
python3 - "$ID" "$N" "$WT" "$HINT" <<'PY'
import json,sys
ID,N,WT,HINT=sys.argv[1:5]
prop=[json.loads(l) for l in open('/verif/properties.jsonl') if json.loads(l)['id']==ID][0]
t=open('/verif/run/seed_prompt.txt').read()
t=t.replace('@@WT@@/../@@ID@@-out','/tmp/'+ID+'b-out').replace('@@WT@@',WT).replace('/tmp/@@ID@@-scratch','/tmp/'+ID+'b-scratch').replace('@@ID@@',ID).replace('@@N@@',N).replace('@@PROPERTY@@',json.dumps(prop,indent=1))
t=t.replace('for i = 1..'+N,'for i = '+str(int(START))+'..'+str(int(START)+int(N)-1)).replace('<i>/','<i>/  (number them 4, 5, 6 …)')
t+='\n\nThis is a second round: other people already wrote changes for this property in the most obvious places. To be different, concentrate on: '+HINT+'\n'
open('/tmp/%sb-out/TASK.txt'%ID,'w').write(t)
print(len(t))
PY
