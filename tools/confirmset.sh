#!/bin/bash
# usage: confirmset.sh C01e C02e ... : confirm every /tmp/<ID>-out/<i> and file it; then remove the seeder worktree
cd /verif
for ID in "$@"; do
  P=${ID%[bcde]}
  for d in /tmp/$ID-out/[0-9]*; do i=$(basename $d); echo "=== $P-$i"; bin/seedconfirm $d $P-$i 2>&1 | tail -3; done
  git -C /repo worktree remove --force /tmp/seedwt-$ID 2>/dev/null
done
echo "=== confirmset done: $*"
