package didexchange

import (
	"encoding/json"
	"testing"
	"time"

	"github.com/stretchr/testify/require"

	"github.com/hyperledger/aries-framework-go/pkg/didcomm/common/model"
	"github.com/hyperledger/aries-framework-go/pkg/didcomm/common/service"
	"github.com/hyperledger/aries-framework-go/pkg/didcomm/protocol/decorator"
	"github.com/hyperledger/aries-framework-go/pkg/didcomm/protocol/mediator"
	"github.com/hyperledger/aries-framework-go/pkg/didcomm/transport"
	"github.com/hyperledger/aries-framework-go/pkg/kms"
	"github.com/hyperledger/aries-framework-go/pkg/crypto/tinkcrypto"
	"github.com/hyperledger/aries-framework-go/pkg/mock/didcomm/protocol"
	mockroute "github.com/hyperledger/aries-framework-go/pkg/mock/didcomm/protocol/mediator"
	mockstorage "github.com/hyperledger/aries-framework-go/pkg/mock/storage"
	mockvdr "github.com/hyperledger/aries-framework-go/pkg/mock/vdr"
	"github.com/hyperledger/aries-framework-go/pkg/store/connection"
)

func TestC10ScratchThidMismatch(t *testing.T) {
	mockStore := &mockstorage.MockStore{Store: make(map[string]mockstorage.DBEntry)}
	storeProv := mockstorage.NewCustomMockStoreProvider(mockStore)
	k := newKMS(t, storeProv)
	prov := &protocol.MockProvider{
		StoreProvider: storeProv,
		ServiceMap:    map[string]interface{}{mediator.Coordination: &mockroute.MockMediatorSvc{}},
		CustomKMS:     k, KeyTypeValue: kms.ED25519Type, KeyAgreementTypeValue: kms.X25519ECDHKWType,
	}
	ctx := &context{outboundDispatcher: prov.OutboundDispatcher(), crypto: &tinkcrypto.Crypto{}, kms: k,
		keyType: kms.ED25519Type, keyAgreementType: kms.X25519ECDHKWType}
	verPubKey, encPubKey := newSigningAndEncryptionDIDKeys(t, ctx)
	mtp := transport.MediaTypeRFC0019EncryptedEnvelope
	ctx.vdRegistry = &mockvdr.MockVDRegistry{CreateValue: createDIDDocWithKey(verPubKey, encPubKey, mtp)}
	connRec, err := connection.NewRecorder(prov)
	require.NoError(t, err)
	ctx.connectionRecorder = connRec
	doc, err := ctx.vdRegistry.Create(testMethod, nil)
	require.NoError(t, err)
	s, err := New(prov)
	require.NoError(t, err)
	actionCh := make(chan service.DIDCommAction, 10)
	require.NoError(t, s.RegisterActionEvent(actionCh))
	go func() { service.AutoExecuteActionEvent(actionCh) }()

	invitation := &Invitation{Type: InvitationMsgType, ID: randomString(), Label: "Alice",
		RecipientKeys: []string{verPubKey}, ServiceEndpoint: "http://alice.agent.example.com:8081"}
	require.NoError(t, ctx.connectionRecorder.SaveInvitation(invitation.ID, invitation))

	thid := randomString()
	send := func(v interface{}) error {
		b, e := json.Marshal(v)
		require.NoError(t, e)
		m, e := service.ParseDIDCommMsgMap(b)
		require.NoError(t, e)
		_, e = s.HandleInbound(m, service.NewDIDCommContext(doc.DIDDocument.ID, "", nil))
		return e
	}
	require.NoError(t, send(&Request{Type: RequestMsgType, ID: thid, Label: "Bob",
		Thread: &decorator.Thread{PID: invitation.ID}, DID: doc.DIDDocument.ID, DocAttach: unsignedDocAttach(t, doc.DIDDocument)}))
	key, err := connection.CreateNamespaceKey(theirNSPrefix, thid)
	require.NoError(t, err)
	state := func() (string, string) {
		r, e := s.connectionRecorder.GetConnectionRecordByNSThreadID(key)
		if e != nil {
			return "", ""
		}
		return r.ConnectionID, r.State
	}
	require.Eventually(t, func() bool { _, st := state(); return st == "responded" }, 3*time.Second, 20*time.Millisecond)
	require.NoError(t, send(&model.Ack{Type: AckMsgType, ID: randomString(), Status: "OK", Thread: &decorator.Thread{ID: thid}}))
	require.Eventually(t, func() bool { _, st := state(); return st == "completed" }, 3*time.Second, 20*time.Millisecond)
	conn1, _ := state()

	// plain replay of a request on the same thread is refused
	err = send(&Request{Type: RequestMsgType, ID: thid, Label: "Mallory",
		Thread: &decorator.Thread{PID: invitation.ID}, DID: doc.DIDDocument.ID, DocAttach: unsignedDocAttach(t, doc.DIDDocument)})
	require.Error(t, err)
	t.Logf("plain: %v", err)

	// request with @id = thid but ~thread.thid = something fresh
	err = send(&Request{Type: RequestMsgType, ID: thid, Label: "Mallory",
		Thread: &decorator.Thread{ID: randomString(), PID: invitation.ID}, DID: doc.DIDDocument.ID, DocAttach: unsignedDocAttach(t, doc.DIDDocument)})
	t.Logf("mismatch: err=%v", err)
	time.Sleep(500 * time.Millisecond)
	conn2, st2 := state()
	t.Logf("their_%s -> before %s, after %s (%s)", thid, conn1, conn2, st2)
	require.Equal(t, conn1, conn2)
}
